/-
  C16 — data queries return exactly the values the path designates.

  Model: `View/Query.lean` (`DataQuerent` after the fixes F16a/F16b), specification: `Spec/EvalPath.lean`
  (evaluation of a child/attribute path over the nested JSON rendering; CPython's `slice.indices`).
  Everything below is proved for ALL node trees, flat lists, paths and subset counts (no bounds).

  * `C16_pySlice`, `C16_pySlice_lt`, `C16_pySlice_sorted_*`, closed forms `C16_pySlice_all / _idx / _neg / _ab`:
    the model's `pySlice` is `range(*slice(a, b, c).indices(n))`.
  * `C16_subset_selector` (+ `C16_selected_indices`): an `@` selector restricts the result of the unselected
    query to exactly the selected subsets.
  * `C16_compressed_eq_uncompressed_shape`, `C16_compressed_subset_eq`: on a shared tree the compressed
    query is the uncompressed one, subset by subset.
  * `C16_filter_for_entities_document_order`: slice application and document order of `filter_for_entities`.
  * `C16_query_eq_eval_partial`, `C16_bare_id_is_flat_filter_partial`: first stages only; the full statements are
    kept as comment blocks in their sections and are covered by the correspondence run, not by proof.
-/
import BufrModel.Lemmas.Query
namespace Bufr
open Bufr.Query Bufr.PathLang Bufr.C16

/-! ### Python slices -/

/-- `pySlice` lists exactly `range(start, stop, step)` for CPython's normalised and clamped
    `(start, stop) = slice(a, b, c).indices(n)`: positions `start + j·step` below `stop` for a positive step,
    above `stop` for a negative one. -/
theorem C16_pySlice (a b c : Option Int) (n i : Nat) (hc : c ≠ some 0) :
    i ∈ pySlice (.range a b c) n ↔
      Spec.inPyRange (Spec.pyIndices a b (c.getD 1) n).1 (Spec.pyIndices a b (c.getD 1) n).2 (c.getD 1) i := by
  have hstep : c.getD 1 ≠ 0 := by
    cases c with
    | none => decide
    | some v => intro h; apply hc; simp only [Option.getD_some] at h; rw [h]
  exact pySliceStep_mem a b (c.getD 1) n i hstep

/-- every selected position exists -/
theorem C16_pySlice_lt (s : Slice) (n : Nat) : ∀ i ∈ pySlice s n, i < n := by
  cases s with
  | idx k =>
    intro i hi
    simp only [pySlice] at hi
    split at hi
    · simp only [List.mem_singleton] at hi; omega
    · exact absurd hi List.not_mem_nil
  | range a b c => exact pySliceStep_lt a b (c.getD 1) n

/-- ascending for a positive step, descending for a negative one; never a position twice -/
theorem C16_pySlice_sorted_up (a b c : Option Int) (n : Nat) (h : 0 < c.getD 1) :
    (pySlice (.range a b c) n).Pairwise (· < ·) := pySliceStep_sorted_up a b _ n h

theorem C16_pySlice_sorted_down (a b c : Option Int) (n : Nat) (h : c.getD 1 < 0) :
    (pySlice (.range a b c) n).Pairwise (· > ·) := pySliceStep_sorted_down a b _ n h

theorem C16_pySlice_nodup (a b c : Option Int) (n : Nat) : (pySlice (.range a b c) n).Nodup :=
  pySliceStep_nodup a b _ n

/-- `[:]` (a bare id): everything -/
theorem C16_pySlice_all (n : Nat) : pySlice (.range none none none) n = List.range n := pySlice_all n

/-- `[k]` -/
theorem C16_pySlice_idx (k n : Nat) : pySlice (.idx k) n = if k < n then [k] else [] := by
  simp only [pySlice, Int.toNat_natCast]
  by_cases h : k < n
  · rw [if_pos h, if_pos ⟨by omega, by omega⟩]
  · rw [if_neg h, if_neg (by omega)]

/-- `[-k]` as the parser builds it (`slice(-k, -k+1)`, `slice(-1, None)`): the `k`-th entry from the end -/
theorem C16_pySlice_neg (k n : Nat) (hk : 1 ≤ k) :
    pySlice (.range (some (-(k : Int))) (if -(k : Int) ≠ -1 then some (-(k : Int) + 1) else none) none) n =
      if k ≤ n then [n - k] else [] := pySlice_neg k n hk

/-- `[a:b]`, non-negative bounds: positions `a .. b-1`, cut at `n` -/
theorem C16_pySlice_ab (a b n : Nat) :
    pySlice (.range (some (a : Int)) (some (b : Int)) none) n = List.range' (min a n) (min b n - min a n) :=
  pySlice_ab a b n

example : pySlice (.range none none (some (-2))) 7 = [6, 4, 2, 0] := by decide
example : pySlice (.range (some (-3)) none none) 7 = [4, 5, 6] := by decide
example : pySlice (.range (some 1) (some (-1)) (some 2)) 8 = [1, 3, 5] := by decide
example : pySlice (.range (some 99) (some (-99)) (some (-3))) 5 = [4, 1] := by decide

/-! ### the `@` selector -/

theorem C16_uncompressedSubset_key (m : QMsg) (comps : List Comp) (i : Nat) (b : Nat × List QV)
    (h : uncompressedSubset m comps i = .ok b) : b = (i, b.2) := by
  unfold uncompressedSubset at h
  repeat' split at h
  all_goals (cases h; try rfl)

theorem C16_compressedSubset_key (m : QMsg) (hits : List Hit) (i : Nat) (b : Nat × List QV)
    (h : compressedSubset m hits i = .ok b) : b = (i, b.2) := by
  unfold compressedSubset at h
  repeat' split at h
  all_goals (cases h; try rfl)

/-- `query msg (withSel sl p) = (query msg p).restrict (selected subsets)`: whenever the query without a
    selector succeeds, the query with the selector `sl` is that result cut down to the subsets `sl` designates
    (`[k]` for an int, `pySlice sl n_subsets` for a slice object; `IndexError` / `ValueError` as `Err.other` for a
    subset that does not exist / a zero step) — nothing else is evaluated differently. -/
theorem C16_subset_selector (m : QMsg) (sl : Slice) (comps : List Comp) (r : QResult)
    (h : query m { subset := none, comps := comps } = .ok r) :
    query m { subset := some sl, comps := comps } = r.select (some sl) m.outs.length := by
  unfold query at h ⊢
  unfold QResult.select QResult.restrict
  simp only [subsetIndices] at h
  cases hs : subsetIndices (some sl) m.outs.length with
  | error e => rfl
  | ok idxs =>
    simp only
    cases hc : m.compressed with
    | true =>
      simp only [hc, if_true] at h ⊢
      split at h
      · next t o0 ht ho =>
        split at h
        · cases h
        · next hits hh =>
          split at h
          · cases h
          · next rs hrs =>
            injection h with h; subst h
            rw [restrict_eq_mapIdx (compressedSubset m hits) m.outs.length rs
              (C16_compressedSubset_key m hits)
              (fun i hi => by unfold compressedSubset; rw [List.getElem?_eq_none hi]) hrs idxs]
            generalize mapIdx _ idxs = x
            cases x <;> rfl
      · cases h
    | false =>
      simp only [hc, Bool.false_eq_true, if_false] at h ⊢
      split at h
      · cases h
      · next rs hrs =>
        injection h with h; subst h
        rw [restrict_eq_mapIdx (uncompressedSubset m comps) m.outs.length rs
          (C16_uncompressedSubset_key m comps)
          (fun i hi => by unfold uncompressedSubset; rw [List.getElem?_eq_none hi]) hrs idxs]
        generalize mapIdx _ idxs = x
        cases x <;> rfl


/-! ### compressed data -/

theorem C16_compressed_subset_eq (m : QMsg) (comps : List Comp) (t0 : List Node) (o0 : SubsetOut) (hits : List Hit)
    (ht : ∀ i, i < m.outs.length → m.trees[i]? = some t0)
    (hl : ∀ o ∈ m.outs, o.descs = o0.descs)
    (hh : processOne o0.descs t0 comps = .ok hits) (i : Nat) :
    compressedSubset m hits i = uncompressedSubset { m with compressed := false } comps i := by
  unfold compressedSubset uncompressedSubset
  simp only
  cases ho : m.outs[i]? with
  | none => rfl
  | some o =>
    have hi : i < m.outs.length := by
      rcases Nat.lt_or_ge i m.outs.length with h | h
      · exact h
      · rw [List.getElem?_eq_none h] at ho; cases ho
    simp only [ht i hi, hl o (List.mem_of_getElem? ho), hh]

/-- compressed data (one node tree shared by all subsets, equal labels) answer every query exactly as the same
    message stored uncompressed: subset `i` gets the matching nodes of the shared tree with the values of subset `i` -/
theorem C16_compressed_eq_uncompressed_shape (m : QMsg) (p : Path) (t0 : List Node) (o0 : SubsetOut)
    (hc : m.compressed = true)
    (ht : ∀ i, i < m.outs.length → m.trees[i]? = some t0)
    (ho : m.outs[0]? = some o0)
    (hl : ∀ o ∈ m.outs, o.descs = o0.descs)
    (r : QResult) (h : query m p = .ok r) :
    query { m with compressed := false } p = .ok r := by
  have h0 : 0 < m.outs.length := by
    rcases Nat.lt_or_ge 0 m.outs.length with h | h
    · exact h
    · rw [List.getElem?_eq_none h] at ho; cases ho
  unfold query at h ⊢
  simp only [hc, if_true, ht 0 h0, ho] at h
  simp only [Bool.false_eq_true, if_false]
  cases hs : subsetIndices p.subset m.outs.length with
  | error e => rw [hs] at h; cases h
  | ok idxs =>
    rw [hs] at h
    simp only at h ⊢
    split at h
    · cases h
    · next hits hh =>
      rw [← mapIdx_congr _ _ idxs (fun i _ => C16_compressed_subset_eq m p.comps t0 o0 hits ht hl hh i)]
      exact h


/-! ### slice application and document order (`filter_for_entities`) -/

/-- For a child or attribute step (nothing is "kept": that only happens under `>`), `filter_for_entities` returns
    the entries that match the id, the slice applied to that list of matches (`Spec.pickSel`: match number `k` for an
    int, the matches whose rank `pySlice` lists for a slice object), in DOCUMENT order — also for negative steps
    (the code sorts the selection by position).  Proved for every list, classifier and slice of the path language. -/
theorem C16_filter_for_entities_document_order {α : Type} (c : Comp) (cls : α → Match) (xs : List α)
    (hk : ∀ x ∈ xs, cls x ≠ .keep) (hs : Spec.sliceOK c.slice = true) :
    filterEnt c cls xs = .ok (Spec.pickSel c.slice (xs.filter (fun x => cls x = .hit))) :=
  filterEnt_eq c cls xs hk hs

/-- the selection is made of matches only, each at most once per rank (it is a sub-list of the matches) -/
theorem C16_pickSel_subset {α : Type} (sl : Slice) (ms : List α) : ∀ x ∈ Spec.pickSel sl ms, x ∈ ms :=
  pickSel_subset sl ms

example : Spec.pickSel (.range none none (some (-1))) [10, 20, 30] = [10, 20, 30] := by decide
example : Spec.pickSel (.range (some 1) none (some (-1))) [10, 20, 30] = [10, 20] := by decide
example : Spec.pickSel (.idx 1) [10, 20, 30] = [20] := by decide

/-! ### query = evaluation over the nested JSON

  FULL STATEMENT (not proved; checked case by case by the correspondence run: driver field `spec` against `q`
  on every child/attribute query, ~3700 per quick run, and by the oracle on the implementation):

    C16_query_eq_eval (o : SubsetOut) (tree : List Node) (js : List NJ) (comps : List Comp)
        (hr : renderNested o tree = .ok js) (hshape : repsOKList o tree = true)
        (hp : Spec.childAttrOnly comps = true) (hs : ∀ c ∈ comps, Spec.sliceOK c.slice = true) :
        ((processOne o.descs tree comps).bind (valuesOf o.vals)).toOption = (Spec.evalComps js comps).toOption

  and, for the whole message, `query m p` against `Spec.evalPath (nested JSON per subset) (selected subsets) p.comps`.
  Proved below: the first stage (one step from the top level, every slice of the path language), with the
  selection expressed by the specification's own `pickSel`.  MISSING: the induction over the remaining steps (the
  continuation of a selected node is the evaluation of the rest of the path at its rendering), the replication
  envelope (blocks of `n_members` nodes = the lists the renderer cuts, C09_replication_chunks) and the pointwise
  link between a node list and its rendering (equal labels, `vals[index]` = the `value` key). -/

/-- first stage of `C16_query_eq_eval`: a one-step child query selects, among the top-level nodes, exactly those
    whose label is the id, with the slice applied to that list of matches, in document order.
    MISSING for the full statement: see the section header. -/
theorem C16_query_eq_eval_partial (ds : List DDesc) (tree : List Node) (c : Comp) (hsep : c.sep = '/')
    (hs : Spec.sliceOK c.slice = true) :
    processOne ds tree [c] =
      .ok ((Spec.pickSel c.slice (tree.filter (fun n => nodeLabel ds n = some c.id))).map Hit.node) := by
  apply processOne_last ds tree c (by rw [hsep]; decide) _ hs
  intro n _
  have hne : c.sep ≠ '>' := by rw [hsep]; decide
  by_cases h : nodeLabel ds n = some c.id <;> simp [nodeMatch, h, hne]

/-! ### the bare id

  FULL STATEMENT (not proved; evaluated by the oracle `bare-id` on the implementation and by the correspondence
  on ~1100 bare-id queries per quick run):

    C16_bare_id_is_flat_filter (o : SubsetOut) (tree : List Node) (id : List Char) (hits : List Hit) (vs : List QV)
        (hidx : idxList tree = List.range o.vals.length)            -- C09_wire_consumes_each_index_once
        (hord : OrdinaryElement o.descs tree id)                    -- the id labels no attribute node and no valueless node
        (h : processOne o.descs tree [⟨'>', id, .range none none none⟩] = .ok hits) (hv : valuesOf o.vals hits = .ok vs) :
        flattenQV vs = ((o.descs.zip o.vals).filter (fun p => ddChars p.1 = id)).map (·.2)

  Proved below: the stage without composite nodes (a tree of plain value nodes, no attributes, no replication or
  sequence): the bare id returns the nodes labelled with the id in tree order.  MISSING: the descent through
  composite nodes (the `keep` classification, `descStep`: factor, then members; one envelope per replication whose
  flattening is the concatenation of the repetitions) and the appeal to C09 for "tree order = flat order". -/

/-- first stage of `C16_bare_id_is_flat_filter`: on a tree without composite nodes the bare id selects the nodes
    carrying the id, all of them (`[:]`), in tree order.  MISSING: see the section header. -/
theorem C16_bare_id_is_flat_filter_partial (ds : List DDesc) (tree : List Node) (id : List Char)
    (hflat : ∀ n ∈ tree, composite n = false) :
    processOne ds tree [{ sep := '>', id := id, slice := .range none none none }] =
      .ok ((Spec.pickSel (.range none none none) (tree.filter (fun n => nodeLabel ds n = some id))).map Hit.node) := by
  apply processOne_last ds tree _ (show ('>' : Char) ≠ '.' by decide) _ (show Spec.sliceOK (.range none none none) = true by decide)
  intro n hn
  by_cases h : nodeLabel ds n = some id <;> simp [nodeMatch, h, hflat n hn]

/-! ### non-vacuity: a wired tree with a delayed replication (counts 2 and 0) and associated-field attributes -/

namespace C16ex
open Bufr.Query Bufr.PathLang

mutual
def beqQV : QV → QV → Bool
  | .val a, .val b => a == b
  | .list a, .list b => beqQVs a b
  | _, _ => false
def beqQVs : List QV → List QV → Bool
  | [], [] => true
  | a :: as, b :: bs => beqQV a b && beqQVs as bs
  | _, _ => false
end

def beqRes (r : CM QResult) (want : List (Nat × List QV)) : Bool :=
  match r with
  | .ok q => q.subsetIndices == want.map (·.1) && beqQVs (q.subsets.map fun p => QV.list p.2) (want.map fun p => QV.list p.2)
  | .error _ => false

def e (id nbits : Nat) : Elem := { id := id, kind := .numeric, nbits := nbits, scale := 0, ref := 0 }

/-- `204004 031021 101000 031001 012001 204000 001001`: a delayed replication under an associated field -/
def T : List Desc :=
  [.op 204004, .elem (e 31021 6), .delayedRep 101000 (.elem (e 31001 8)) [.elem (e 12001 12)],
   .op 204000, .elem (e 1001 7)]

def O1 : SubsetOut :=
  { descs := [.plain (e 31021 6), .plain (e 31001 8), .assoc 12001 4, .plain (e 12001 12),
              .assoc 12001 4, .plain (e 12001 12), .plain (e 1001 7)]
    vals := [.int 1, .int 2, .int 5, .int 280, .int 6, .int 281, .int 99]
    links := [] }

def O2 : SubsetOut :=
  { descs := [.plain (e 31021 6), .plain (e 31001 8), .plain (e 1001 7)]
    vals := [.int 1, .int 0, .int 98]
    links := [] }

def msg : CM QMsg := mkMsg T false [O1, O2]

def c (sep : Char) (id : String) (s : Slice) : Comp := { sep := sep, id := id.toList, slice := s }
def all : Slice := .range none none none

def run (sel : Option Slice) (comps : List Comp) : CM QResult :=
  match msg with
  | .error e => .error e
  | .ok m => query m { subset := sel, comps := comps }

example : beqRes (run none [c '/' "101000" all, c '/' "012001" all])
    [(0, [.list [.list [.val (.int 280)], .list [.val (.int 281)]]]), (1, [])] = true := by decide +kernel
example : beqRes (run none [c '/' "101000" all, c '/' "012001" all, c '.' "A12001" all])
    [(0, [.list [.list [.val (.int 5)], .list [.val (.int 6)]]]), (1, [])] = true := by decide +kernel
example : beqRes (run (some (.range (some (-1)) none none)) [c '/' "101000" all, c '.' "031001" (.idx 0)])
    [(1, [.val (.int 0)])] = true := by decide +kernel
example : beqRes (run none [c '>' "012001" (.range none none (some (-1)))])
    [(0, [.list [.list [.val (.int 280)], .list [.val (.int 281)]]]), (1, [])] = true := by decide +kernel
/-- the hypothesis of `C16_subset_selector` holds here (the unselected query succeeds) and the selector picks subset 1 -/
example : (run none [c '/' "101000" all, c '.' "031001" (.idx 0)]).toOption.isSome = true := by decide +kernel
example : subsetIndices (some (.range (some (-1)) none none)) 2 = .ok [1] := by decide
end C16ex


end Bufr
