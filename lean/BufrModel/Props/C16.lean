/-
  C16 — data queries return exactly the values the path designates.  (theorems: work in progress)
-/
import BufrModel.View.Query
import BufrModel.Spec.EvalPath
namespace Bufr
open Bufr.Query Bufr.PathLang

theorem C16_pySlice_idx_lt (k : Int) (n : Nat) : ∀ i ∈ pySlice (.idx k) n, i < n := by
  intro i hi
  simp only [pySlice] at hi
  split at hi
  · next h => simp only [List.mem_singleton] at hi; omega
  · cases hi

end Bufr
