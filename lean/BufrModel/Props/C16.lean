/-
  C16 — data queries return exactly the values the path designates.

  Model: `View/Query.lean` (`DataQuerent` after the fixes F16a/F16b/F16c), specification: `Spec/EvalPath.lean`
  (evaluation of a child/attribute path over the nested JSON rendering; CPython's `slice.indices`; the decidable
  predicates `shapeOK` / `ordinaryList`).  Everything below is proved for ALL node trees, flat lists, paths and
  subset counts (no bounds).

  * `C16_pySlice`, `C16_pySlice_lt`, `C16_pySlice_sorted_*`, closed forms `C16_pySlice_all / _idx / _neg / _ab`:
    the model's `pySlice` is `range(*slice(a, b, c).indices(n))`.
  * `C16_subset_selector`: an `@` selector restricts the result of the unselected query to exactly the selected subsets.
  * `C16_compressed_eq_uncompressed_shape`, `C16_compressed_subset_eq`, `C16_compressed_trees_shared`: on a shared
    tree the compressed query is the uncompressed one, subset by subset.
  * `C16_filter_for_entities_document_order`, `C16_filter_for_entities_bare`: slice application and document order
    of `filter_for_entities`.
  * `C16_query_eq_eval_subset`, `C16_query_eq_eval` (FULL: one subset / whole uncompressed message, exact equality
    including the error), `C16_sub_nodes_eq_eval_at` (the induction step made public), `C16_query_eq_eval_compressed`
    (FULL for compressed data after fix F16c: exact equality, the empty selection included, for every selector whose
    first subset exists — `C16_first_selected_exists`: no selector, every slice selector), `_filter_ok`, `_selected`,
    `C16_query_compressed_subset_out_of_range` + `C16_query_eq_eval_compressed_any_selection` (the remaining selector
    `@[k]`, `k` beyond the last subset: both sides fail), `C16_eval_fails_only_with_query_error`.
  * the querent as a long-lived OBJECT (answers independent of earlier queries): `Props/C16History.lean`.
  * `C16_wire_shape`, `C16_mkMsg_shape`, `C16_wire_indices_consecutive`: the wiring pass establishes the shape
    hypothesis; tree order = flat order for the tree every reader sees.
  * `C16_bare_id_descent`, `C16_bare_id_is_flat_filter` (FULL), `_wired`, `C16_bare_id_returns_flat_filter` (+ `_wired`:
    the query succeeds), `C16_bare_id_query`, `C16_bare_id_query_compressed` (whole message).
-/
import BufrModel.Lemmas.Query
import BufrModel.Lemmas.QueryEval
import BufrModel.Lemmas.QueryShape
import BufrModel.Lemmas.QueryBare
import BufrModel.Lemmas.QueryCompressed
import BufrModel.Props.C09
namespace Bufr
open Bufr.Query Bufr.PathLang Bufr.C16

/-! ### Python slices -/

/-- `pySlice` lists exactly `range(start, stop, step)` for CPython's normalised and clamped
    `(start, stop) = slice(a, b, c).indices(n)`: positions `start + j·step` below `stop` for a positive step,
    above `stop` for a negative one. -/
theorem C16_pySlice (a b c : Option Int) (n i : Nat) (hc : c ≠ some 0) :
    i ∈ pySlice (.range a b c) n ↔
      Spec.inPyRange (Spec.pyIndices a b (c.getD 1) n).1 (Spec.pyIndices a b (c.getD 1) n).2 (c.getD 1) i := by
  have hstep : c.getD 1 ≠ 0 := by
    cases c with
    | none => decide
    | some v => intro h; apply hc; simp only [Option.getD_some] at h; rw [h]
  exact pySliceStep_mem a b (c.getD 1) n i hstep

/-- every selected position exists -/
theorem C16_pySlice_lt (s : Slice) (n : Nat) : ∀ i ∈ pySlice s n, i < n := by
  cases s with
  | idx k =>
    intro i hi
    simp only [pySlice] at hi
    split at hi
    · simp only [List.mem_singleton] at hi; omega
    · exact absurd hi List.not_mem_nil
  | range a b c => exact pySliceStep_lt a b (c.getD 1) n

/-- ascending for a positive step, descending for a negative one; never a position twice -/
theorem C16_pySlice_sorted_up (a b c : Option Int) (n : Nat) (h : 0 < c.getD 1) :
    (pySlice (.range a b c) n).Pairwise (· < ·) := pySliceStep_sorted_up a b _ n h

theorem C16_pySlice_sorted_down (a b c : Option Int) (n : Nat) (h : c.getD 1 < 0) :
    (pySlice (.range a b c) n).Pairwise (· > ·) := pySliceStep_sorted_down a b _ n h

theorem C16_pySlice_nodup (a b c : Option Int) (n : Nat) : (pySlice (.range a b c) n).Nodup :=
  pySliceStep_nodup a b _ n

/-- `[:]` (a bare id): everything -/
theorem C16_pySlice_all (n : Nat) : pySlice (.range none none none) n = List.range n := pySlice_all n

/-- `[k]` -/
theorem C16_pySlice_idx (k n : Nat) : pySlice (.idx k) n = if k < n then [k] else [] := by
  simp only [pySlice, Int.toNat_natCast]
  by_cases h : k < n
  · rw [if_pos h, if_pos ⟨by omega, by omega⟩]
  · rw [if_neg h, if_neg (by omega)]

/-- `[-k]` as the parser builds it (`slice(-k, -k+1)`, `slice(-1, None)`): the `k`-th entry from the end -/
theorem C16_pySlice_neg (k n : Nat) (hk : 1 ≤ k) :
    pySlice (.range (some (-(k : Int))) (if -(k : Int) ≠ -1 then some (-(k : Int) + 1) else none) none) n =
      if k ≤ n then [n - k] else [] := pySlice_neg k n hk

/-- `[a:b]`, non-negative bounds: positions `a .. b-1`, cut at `n` -/
theorem C16_pySlice_ab (a b n : Nat) :
    pySlice (.range (some (a : Int)) (some (b : Int)) none) n = List.range' (min a n) (min b n - min a n) :=
  pySlice_ab a b n

example : pySlice (.range none none (some (-2))) 7 = [6, 4, 2, 0] := by decide
example : pySlice (.range (some (-3)) none none) 7 = [4, 5, 6] := by decide
example : pySlice (.range (some 1) (some (-1)) (some 2)) 8 = [1, 3, 5] := by decide
example : pySlice (.range (some 99) (some (-99)) (some (-3))) 5 = [4, 1] := by decide

/-! ### the `@` selector -/

theorem C16_uncompressedSubset_key (m : QMsg) (comps : List Comp) (i : Nat) (b : Nat × List QV)
    (h : uncompressedSubset m comps i = .ok b) : b = (i, b.2) := by
  unfold uncompressedSubset at h
  repeat' split at h
  all_goals (cases h; try rfl)

theorem C16_compressedSubset_key (m : QMsg) (hits : List Hit) (i : Nat) (b : Nat × List QV)
    (h : compressedSubset m hits i = .ok b) : b = (i, b.2) := by
  unfold compressedSubset at h
  repeat' split at h
  all_goals (cases h; try rfl)

/-- `query msg (withSel sl p) = (query msg p).restrict (selected subsets)`: whenever the query without a
    selector succeeds, the query with the selector `sl` is that result cut down to the subsets `sl` designates
    (`[k]` for an int, `pySlice sl n_subsets` for a slice object; `IndexError` / `ValueError` as `Err.other` for a
    subset that does not exist / a zero step) — nothing else is evaluated differently. -/
theorem C16_subset_selector (m : QMsg) (sl : Slice) (comps : List Comp) (r : QResult)
    (h : query m { subset := none, comps := comps } = .ok r) :
    query m { subset := some sl, comps := comps } = r.select (some sl) m.outs.length := by
  unfold QResult.select QResult.restrict
  have hnone : subsetIndices (none : Option Slice) m.outs.length = .ok (List.range m.outs.length) := rfl
  cases hs : subsetIndices (some sl) m.outs.length with
  | error e => exact query_selector_error m _ e hs
  | ok idxs =>
    simp only
    cases hc : m.compressed with
    | false =>
      rw [query_uncompressed m _ _ hc hnone] at h
      rw [query_uncompressed m _ _ hc hs]
      simp only at h ⊢
      split at h
      · cases h
      · next rs hrs =>
        injection h with h; subst h
        rw [restrict_eq_mapIdx (uncompressedSubset m comps) m.outs.length rs
          (C16_uncompressedSubset_key m comps)
          (fun i hi => by unfold uncompressedSubset; rw [List.getElem?_eq_none hi]) hrs idxs]
        generalize mapIdx _ idxs = x
        cases x <;> rfl
    | true =>
      cases hn : m.outs.length with
      | zero =>
        -- a message without subsets: the unselected result is empty; `@[k]` fails on both sides
        rw [hn] at hnone hs
        rw [query_compressed_empty m _ hc (by rw [hn]; exact hnone)] at h
        injection h with h; subst h
        cases idxs with
        | nil => rw [query_compressed_empty m _ hc (by rw [hn]; exact hs)]; rfl
        | cons i is =>
          rw [query_compressed_cons m _ i is hc (by rw [hn]; exact hs)]
          have ho : m.outs[0]? = none := List.getElem?_eq_none (by omega)
          unfold compressedRun
          simp only [ho, mapIdx, QResult.get?, List.find?_nil, Option.map_none]
          cases m.trees[0]? <;> rfl
      | succ k =>
        have hr : List.range m.outs.length = 0 :: (List.range k).map (· + 1) := by
          rw [hn, List.range_succ_eq_map]
        rw [query_compressed_cons m _ 0 _ hc (by rw [hnone, hr])] at h
        rw [← hr] at h
        unfold compressedRun at h
        cases idxs with
        | nil =>
          rw [query_compressed_empty m _ hc hs]; rfl
        | cons i is =>
          rw [query_compressed_cons m _ i is hc hs]
          unfold compressedRun
          simp only at h ⊢
          split at h
          · next t o0 ht ho =>
            split at h
            · cases h
            · next hits hh =>
              split at h
              · cases h
              · next rs hrs =>
                injection h with h; subst h
                rw [restrict_eq_mapIdx (compressedSubset m hits) m.outs.length rs
                  (C16_compressedSubset_key m hits)
                  (fun i hi => by unfold compressedSubset; rw [List.getElem?_eq_none hi]) hrs (i :: is)]
                generalize mapIdx _ (i :: is) = x
                cases x <;> rfl
          · cases h

/-! ### compressed data -/

theorem C16_compressed_subset_eq (m : QMsg) (comps : List Comp) (t0 : List Node) (o0 : SubsetOut) (hits : List Hit)
    (ht : ∀ i, i < m.outs.length → m.trees[i]? = some t0)
    (hl : ∀ o ∈ m.outs, o.descs = o0.descs)
    (hh : processOne o0.descs t0 comps = .ok hits) (i : Nat) :
    compressedSubset m hits i = uncompressedSubset { m with compressed := false } comps i := by
  unfold compressedSubset uncompressedSubset
  simp only
  cases ho : m.outs[i]? with
  | none => rfl
  | some o =>
    have hi : i < m.outs.length := by
      rcases Nat.lt_or_ge i m.outs.length with h | h
      · exact h
      · rw [List.getElem?_eq_none h] at ho; cases ho
    simp only [ht i hi, hl o (List.mem_of_getElem? ho), hh]

/-- compressed data whose shared tree the path can be filtered on (`hh`) answer EVERY query — whatever the selector,
    errors included — as the same message stored uncompressed -/
theorem C16_compressed_eq_uncompressed_of_filter_ok (m : QMsg) (p : Path) (t0 : List Node) (o0 : SubsetOut) (hits : List Hit)
    (hc : m.compressed = true)
    (ht : ∀ i, i < m.outs.length → m.trees[i]? = some t0) (ho : m.outs[0]? = some o0)
    (hl : ∀ o ∈ m.outs, o.descs = o0.descs)
    (hh : processOne o0.descs t0 p.comps = .ok hits) :
    query m p = query { m with compressed := false } p := by
  have h0 : 0 < m.outs.length := by
    rcases Nat.lt_or_ge 0 m.outs.length with h | h
    · exact h
    · rw [List.getElem?_eq_none h] at ho; cases ho
  cases hs : subsetIndices p.subset m.outs.length with
  | error e =>
    rw [query_selector_error m p e hs, query_selector_error { m with compressed := false } p e hs]
  | ok idxs =>
    rw [query_uncompressed { m with compressed := false } p idxs rfl hs]
    cases idxs with
    | nil => rw [query_compressed_empty m p hc hs]; rfl
    | cons i is =>
      rw [query_compressed_cons m p i is hc hs]
      unfold compressedRun
      simp only [ht 0 h0, ho, hh]
      rw [mapIdx_congr _ _ (i :: is) (fun j _ => C16_compressed_subset_eq m p.comps t0 o0 hits ht hl hh j)]

/-- compressed data (one node tree shared by all subsets, equal labels) answer every query exactly as the same
    message stored uncompressed: subset `i` gets the matching nodes of the shared tree with the values of subset `i` -/
theorem C16_compressed_eq_uncompressed_shape (m : QMsg) (p : Path) (t0 : List Node) (o0 : SubsetOut)
    (hc : m.compressed = true)
    (ht : ∀ i, i < m.outs.length → m.trees[i]? = some t0)
    (ho : m.outs[0]? = some o0)
    (hl : ∀ o ∈ m.outs, o.descs = o0.descs)
    (r : QResult) (h : query m p = .ok r) :
    query { m with compressed := false } p = .ok r := by
  have h0 : 0 < m.outs.length := by
    rcases Nat.lt_or_ge 0 m.outs.length with h | h
    · exact h
    · rw [List.getElem?_eq_none h] at ho; cases ho
  cases hs : subsetIndices p.subset m.outs.length with
  | error e => rw [query_selector_error m p e hs] at h; cases h
  | ok idxs =>
    rw [query_uncompressed { m with compressed := false } p idxs rfl hs]
    cases idxs with
    | nil => rw [query_compressed_empty m p hc hs] at h; cases h; rfl
    | cons i is =>
      rw [query_compressed_cons m p i is hc hs] at h
      unfold compressedRun at h
      simp only [ht 0 h0, ho] at h
      split at h
      · cases h
      · next hits hh =>
        rw [← mapIdx_congr _ _ (i :: is) (fun j _ => C16_compressed_subset_eq m p.comps t0 o0 hits ht hl hh j)]
        exact h

/-! ### slice application and document order (`filter_for_entities`) -/

/-- For a child or attribute step (nothing is "kept": that only happens under `>`), `filter_for_entities` returns
    the entries that match the id, the slice applied to that list of matches (`Spec.pickSel`: match number `k` for an
    int, the matches whose rank `pySlice` lists for a slice object), in DOCUMENT order — also for negative steps
    (the code sorts the selection by position).  Proved for every list, classifier and slice of the path language. -/
theorem C16_filter_for_entities_document_order {α : Type} (c : Comp) (cls : α → Match) (xs : List α)
    (hk : ∀ x ∈ xs, cls x ≠ .keep) (hs : Spec.sliceOK c.slice = true) :
    filterEnt c cls xs = .ok (Spec.pickSel c.slice (xs.filter (fun x => cls x = .hit))) :=
  filterEnt_eq c cls xs hk hs

/-- the selection is made of matches only, each at most once per rank (it is a sub-list of the matches) -/
theorem C16_pickSel_subset {α : Type} (sl : Slice) (ms : List α) : ∀ x ∈ Spec.pickSel sl ms, x ∈ ms :=
  pickSel_subset sl ms

example : Spec.pickSel (.range none none (some (-1))) [10, 20, 30] = [10, 20, 30] := by decide
example : Spec.pickSel (.range (some 1) none (some (-1))) [10, 20, 30] = [10, 20] := by decide
example : Spec.pickSel (.idx 1) [10, 20, 30] = [20] := by decide

/-! ### query = evaluation over the nested JSON

  For every path of child (`/`) and attribute (`.`) steps with slices of the path language, every node tree and
  every flat value list: filtering the tree (`processOne`) and reading the values (`valuesOf`) gives exactly what
  `Spec.evalComps` computes on the nested JSON rendering of the tree — the same values, the same nesting, the same
  error.  Hypotheses: the rendering succeeds (`renderNested o tree = .ok js`) and the decidable shape condition
  `repsOKList o tree` (every replication node holds `n_repeats * n_members` members, `n_repeats` the number the
  renderer uses) — established by the wiring pass (`C16_wire_shape`), evaluated by the driver (`shape_ok`).
  Proof (`Lemmas/QueryEval.lean`): induction over the tree with the path universally quantified (`evalOK_all`);
  `selectRun_eval` = one step over a list of candidates (slice, document order: `filterEnt_eq`), `rep_eval` = the
  replication envelope (`blocks` of the model = `chunks` of the renderer under the shape condition),
  `concat_eval` / `envelope_eval` = "collect the nodes, then read the values" against "evaluate dict by dict"
  (equal because under these hypotheses the only possible failure is `QueryError`, `evalAt_qerr`). -/

/-- first step alone, without any hypothesis on the tree: a one-step child query selects, among the top-level
    nodes, exactly those whose label is the id, the slice applied to that list of matches, in document order -/
theorem C16_query_first_step (ds : List DDesc) (tree : List Node) (c : Comp) (hsep : c.sep = '/')
    (hs : Spec.sliceOK c.slice = true) :
    processOne ds tree [c] =
      .ok ((Spec.pickSel c.slice (tree.filter (fun n => nodeLabel ds n = some c.id))).map Hit.node) := by
  apply processOne_last ds tree c (by rw [hsep]; decide) _ hs
  intro n _
  have hne : c.sep ≠ '>' := by rw [hsep]; decide
  by_cases h : nodeLabel ds n = some c.id <;> simp [nodeMatch, h, hne]

/-- a path of child and attribute steps with slices of the path language evaluated over nested JSON can only fail
    with `QueryError` (a step on a dict without the key, a path ending on a dict without `value`) -/
theorem C16_eval_fails_only_with_query_error (js : List NJ) (comps : List Comp) (hne : comps ≠ [])
    (hp : Spec.childAttrOnly comps = true) (hs : ∀ c ∈ comps, Spec.sliceOK c.slice = true) (e : Err)
    (h : Spec.evalComps js comps = .error e) : e = .query := by
  have hP := pathOK_of comps hp hs
  cases comps with
  | nil => exact absurd rfl hne
  | cons c rest =>
    rw [evalComps_cons] at h
    rcases hP.1 c List.mem_cons_self with h' | h'
    · rw [if_pos h'] at h
      exact evalSel_qerr rest c (hP.2 c List.mem_cons_self) js (evalAt_qerr rest hP.tail.1 hP.tail.2) e h
    · rw [if_neg (sep_dot_ne_slash h'), if_pos h'] at h
      cases h; rfl

/-- the continuation of a selected node is the evaluation of the rest of the path at its rendering: for every node
    `n` with rendering `x` (as a member, a factor or an attribute) and every non-empty path of child / attribute steps,
    `filter_for_sub_nodes(n, path)` followed by the value pass = `Spec.evalAt path x` -/
theorem C16_sub_nodes_eq_eval_at (o : SubsetOut) (n : Node) (x : NJ) (c : Comp) (rest : List Comp)
    (hr : renderNode o n = .ok x ∨ renderValue o true n = .ok x) (hshape : repsOK1 o n = true)
    (hp : Spec.childAttrOnly (c :: rest) = true) (hs : ∀ c' ∈ c :: rest, Spec.sliceOK c'.slice = true) :
    (subNodes o.descs n c rest >>= valuesOf o.vals) = Spec.evalAt (c :: rest) x := by
  rw [← evalOK_all o n x hr hshape c rest (pathOK_of _ hp hs)]
  cases subNodes o.descs n c rest <;> rfl

/-- ONE SUBSET, full statement: `process_one_subset` + `create_values_from_nodes` = the evaluation of the path over
    the nested JSON rendering of the subset (values, nesting — one envelope per replication traversed, one list per
    repetition with a result — document order, and the error when there is one) -/
theorem C16_query_eq_eval_subset (o : SubsetOut) (tree : List Node) (js : List NJ) (comps : List Comp)
    (hr : renderNested o tree = .ok js) (hshape : repsOKList o tree = true)
    (hp : Spec.childAttrOnly comps = true) (hs : ∀ c ∈ comps, Spec.sliceOK c.slice = true) :
    (processOne o.descs tree comps >>= valuesOf o.vals) = Spec.evalComps js comps := by
  rw [← processOne_eval o tree js comps hr hshape (pathOK_of comps hp hs)]
  cases processOne o.descs tree comps <;> rfl

/-- WHOLE MESSAGE, uncompressed data, full statement: `DataQuerent.query` = `Spec.evalPath` on the nested JSON
    rendering of the message (`Spec.nestedOf`), over the subsets the `@` selector designates — the same result or the
    same error.  (`hc`: see `C16_query_eq_eval_compressed*` for compressed data.) -/
theorem C16_query_eq_eval (m : QMsg) (p : Path) (nested : List (List NJ))
    (hc : m.compressed = false) (hn : Spec.nestedOf m = .ok nested) (hshape : Spec.shapeOK m = true)
    (hp : Spec.childAttrOnly p.comps = true) (hs : ∀ c ∈ p.comps, Spec.sliceOK c.slice = true) :
    query m p = (match subsetIndices p.subset m.outs.length with
      | .error e => .error e
      | .ok sel => match Spec.evalPath nested sel p.comps with
        | .error e => .error e
        | .ok rs => .ok ⟨rs⟩) := by
  cases hsel : subsetIndices p.subset m.outs.length with
  | error e => exact query_selector_error m p e hsel
  | ok sel =>
    rw [query_uncompressed m p sel hc hsel]
    simp only
    rw [evalPath_eq, mapIdx_congr _ _ sel (fun i _ =>
      uncompressedSubset_eval m nested p.comps hn hshape (pathOK_of _ hp hs) i)]
    generalize mapIdx _ sel = x
    cases x <;> rfl

/-- the wiring pass establishes the shape condition of `C16_query_eq_eval*`: in every tree `TemplateData.wire`
    builds (attachments through bitmap links included), every replication node holds `n_repeats * n_members`
    member nodes (`C09_replication_chunks`), `n_repeats` being the number the renderer reads — whatever the flat
    lists are -/
theorem C16_wire_shape (t : List Desc) (o : SubsetOut) (tree : List Node) (h : wire t o = .ok tree) :
    repsOKList o tree = true := by
  obtain ⟨_, _, hs, _⟩ := wire_shape t o tree h
  exact hs

/-- tree order = flat order, for the tree every reader sees (`C09_wire_indices_consecutive` carried through the
    attachment of the bitmap-linked attributes): the flat indices of the members, factors and associated fields
    of the wired tree are `0, 1, ..., k-1`, `k` the number of indices the pass consumed -/
theorem C16_wire_indices_consecutive (t : List Desc) (o : SubsetOut) (tree : List Node) (h : wire t o = .ok tree) :
    ∃ w, wireRaw t o = .ok w ∧ idxList tree = List.range w.st.next := by
  obtain ⟨w, hw, _, hi⟩ := wire_shape t o tree h
  exact ⟨w, hw, by rw [hi]; exact C09_wire_indices_consecutive t o w hw⟩

/-- uncompressed data: the message handed to `query` satisfies the shape hypothesis of `C16_query_eq_eval` -/
theorem C16_mkMsg_shape (t : List Desc) (outs : List SubsetOut) (m : QMsg) (h : mkMsg t false outs = .ok m) :
    Spec.shapeOK m = true := mkMsg_shape t outs m h

/-- compressed data: the message handed to `query` satisfies the shape hypothesis of `C16_query_eq_eval_compressed`
    when every subset carries the delayed replication counts of subset 0 at the factors of the shared tree
    (`Spec.sameCountsList`, decidable: what "the subsets of compressed data share one structure" means for the
    renderer; a property of the decoder's output, evaluated by the driver) -/
theorem C16_mkMsg_shape_compressed (t : List Desc) (outs : List SubsetOut) (m : QMsg) (h : mkMsg t true outs = .ok m)
    (o0 : SubsetOut) (t0 : List Node) (h0 : outs[0]? = some o0) (hw : wire t o0 = .ok t0)
    (hcounts : ∀ o ∈ outs, Spec.sameCountsList o0 o t0 = true) : Spec.shapeOK m = true :=
  mkMsg_shape_compressed t outs m h o0 t0 h0 hw hcounts

/-- the message a decoder hands over for compressed data: every subset shares the tree wired from subset 0
    (the hypothesis `ht` of the theorems on compressed data) -/
theorem C16_compressed_trees_shared (t : List Desc) (outs : List SubsetOut) (m : QMsg)
    (h : mkMsg t true outs = .ok m) :
    m.compressed = true ∧ m.outs = outs ∧
      (∀ o0, outs[0]? = some o0 → ∃ t0, wire t o0 = .ok t0 ∧ ∀ i, i < m.outs.length → m.trees[i]? = some t0) := by
  unfold mkMsg wireAll at h
  simp only [if_true] at h
  cases outs with
  | nil =>
    cases h
    exact ⟨rfl, rfl, fun o0 h0 => by simp at h0⟩
  | cons o os =>
    simp only at h
    cases hw : wire t o with
    | error e => rw [hw] at h; cases h
    | ok ns =>
      rw [hw] at h
      cases h
      refine ⟨rfl, rfl, fun o0 h0 => ?_⟩
      simp only [List.getElem?_cons_zero, Option.some.injEq] at h0
      subst h0
      refine ⟨ns, hw, fun i hi => ?_⟩
      simp only at hi ⊢
      rw [List.getElem?_map, List.getElem?_eq_getElem hi]
      rfl

/-- compressed data, the filtering of the shared tree succeeds (`hh`): exactly the evaluation over the nested JSON,
    subset by subset (every subset is rendered from the shared tree with its own values), whatever the selector -/
theorem C16_query_eq_eval_compressed_filter_ok (m : QMsg) (p : Path) (nested : List (List NJ))
    (t0 : List Node) (o0 : SubsetOut) (hits : List Hit)
    (hc : m.compressed = true)
    (ht : ∀ i, i < m.outs.length → m.trees[i]? = some t0) (ho : m.outs[0]? = some o0)
    (hl : ∀ o ∈ m.outs, o.descs = o0.descs)
    (hn : Spec.nestedOf m = .ok nested) (hshape : Spec.shapeOK m = true)
    (hp : Spec.childAttrOnly p.comps = true) (hs : ∀ c ∈ p.comps, Spec.sliceOK c.slice = true)
    (hh : processOne o0.descs t0 p.comps = .ok hits) :
    query m p = (match subsetIndices p.subset m.outs.length with
      | .error e => .error e
      | .ok sel => match Spec.evalPath nested sel p.comps with
        | .error e => .error e
        | .ok rs => .ok ⟨rs⟩) := by
  rw [C16_compressed_eq_uncompressed_of_filter_ok m p t0 o0 hits hc ht ho hl hh]
  exact C16_query_eq_eval { m with compressed := false } p nested rfl hn hshape hp hs

/-- WHOLE MESSAGE, COMPRESSED DATA, full statement (after fix F16c): `DataQuerent.query` = `Spec.evalPath` on the nested
    JSON rendering of the message over the subsets the `@` selector designates — the same result or the same error,
    the EMPTY selection included (`@[7:]` on two subsets: the empty result, whatever the path), no assumption that the
    path can be filtered on the tree.  `hfirst`: the first selected subset, if there is one, exists — true for every
    query without selector and every slice selector (`C16_first_selected_exists`); the one selector outside is
    `@[k]` with `k` beyond the last subset, where both sides fail (`C16_query_compressed_subset_out_of_range`; the
    code filters the tree before it looks the subset up, so the exception is `QueryError` rather than `IndexError`
    when the path fails too — `C16_query_eq_eval_compressed_any_selection` covers that case up to the error family). -/
theorem C16_query_eq_eval_compressed (m : QMsg) (p : Path) (nested : List (List NJ))
    (t0 : List Node) (o0 : SubsetOut)
    (hc : m.compressed = true)
    (ht : ∀ i, i < m.outs.length → m.trees[i]? = some t0) (ho : m.outs[0]? = some o0)
    (hl : ∀ o ∈ m.outs, o.descs = o0.descs)
    (hn : Spec.nestedOf m = .ok nested) (hshape : Spec.shapeOK m = true)
    (hp : Spec.childAttrOnly p.comps = true) (hs : ∀ c ∈ p.comps, Spec.sliceOK c.slice = true)
    (hfirst : ∀ i rest, subsetIndices p.subset m.outs.length = .ok (i :: rest) → i < m.outs.length) :
    query m p = (match subsetIndices p.subset m.outs.length with
      | .error e => .error e
      | .ok sel => match Spec.evalPath nested sel p.comps with
        | .error e => .error e
        | .ok rs => .ok ⟨rs⟩) := by
  have h0 : 0 < m.outs.length := by
    rcases Nat.lt_or_ge 0 m.outs.length with h | h
    · exact h
    · rw [List.getElem?_eq_none h] at ho; cases ho
  cases hh : processOne o0.descs t0 p.comps with
  | ok hits =>
    rw [C16_compressed_eq_uncompressed_of_filter_ok m p t0 o0 hits hc ht ho hl hh]
    exact C16_query_eq_eval { m with compressed := false } p nested rfl hn hshape hp hs
  | error e =>
    cases hsel : subsetIndices p.subset m.outs.length with
    | error e' => exact query_selector_error m p e' hsel
    | ok sel =>
      cases sel with
      | nil => rw [query_compressed_empty m p hc hsel]; rfl
      | cons i rest =>
        have hi := hfirst i rest hsel
        rw [query_compressed_cons m p i rest hc hsel]
        unfold compressedRun
        simp only [ht 0 h0, ho, hh]
        have hsub : specSubset nested p.comps i = .error e := by
          rw [← uncompressedSubset_eval { m with compressed := false } nested p.comps hn hshape (pathOK_of _ hp hs) i]
          unfold uncompressedSubset
          simp only [List.getElem?_eq_getElem hi, ht i hi, hl _ (List.getElem_mem hi), hh]
        rw [evalPath_eq]
        simp only [mapIdx, hsub]

/-- the hypothesis `hfirst` of `C16_query_eq_eval_compressed` holds for every query without selector and for every
    slice selector (`pySlice` lists existing positions only) -/
theorem C16_first_selected_exists (sel : Option Slice) (n : Nat) (hk : ∀ k, sel ≠ some (.idx k)) (i : Nat) (rest : List Nat)
    (h : subsetIndices sel n = .ok (i :: rest)) : i < n := by
  cases sel with
  | none =>
    simp only [subsetIndices] at h
    injection h with h
    exact List.mem_range.mp (by rw [h]; exact List.mem_cons_self)
  | some s =>
    cases s with
    | idx k => exact absurd rfl (hk k)
    | range a b c =>
      simp only [subsetIndices] at h
      split at h
      · cases h
      · injection h with h
        exact pySliceStep_lt a b (c.getD 1) n i (by unfold pySliceRange at h; rw [h]; exact List.mem_cons_self)

/-- the form with the selection given: the first selected subset exists -/
theorem C16_query_eq_eval_compressed_selected (m : QMsg) (p : Path) (nested : List (List NJ))
    (t0 : List Node) (o0 : SubsetOut) (i : Nat) (rest : List Nat)
    (hc : m.compressed = true)
    (ht : ∀ i, i < m.outs.length → m.trees[i]? = some t0) (ho : m.outs[0]? = some o0)
    (hl : ∀ o ∈ m.outs, o.descs = o0.descs)
    (hn : Spec.nestedOf m = .ok nested) (hshape : Spec.shapeOK m = true)
    (hp : Spec.childAttrOnly p.comps = true) (hs : ∀ c ∈ p.comps, Spec.sliceOK c.slice = true)
    (hsel : subsetIndices p.subset m.outs.length = .ok (i :: rest)) (hi : i < m.outs.length) :
    query m p = (match Spec.evalPath nested (i :: rest) p.comps with
      | .error e => .error e
      | .ok rs => .ok ⟨rs⟩) := by
  rw [C16_query_eq_eval_compressed m p nested t0 o0 hc ht ho hl hn hshape hp hs
    (fun j rest' h => by rw [hsel] at h; injection h with h; injection h with h1 _; rw [← h1]; exact hi), hsel]

/-- `@[k]` with `k` beyond the last subset: the query fails, and so does the evaluation over the nested JSON (there
    is no subset `k` to evaluate the path on) -/
theorem C16_query_compressed_subset_out_of_range (m : QMsg) (comps : List Comp) (nested : List (List NJ)) (k : Int)
    (hc : m.compressed = true) (hn : Spec.nestedOf m = .ok nested)
    (hk0 : 0 ≤ k) (hk : (m.outs.length : Int) ≤ k) :
    (query m { subset := some (.idx k), comps := comps }).toOption = none ∧
    (Spec.evalPath nested [k.toNat] comps).toOption = none := by
  have hlen : nested.length ≤ m.outs.length := by
    unfold Spec.nestedOf at hn
    have := mapE_length _ _ _ hn
    simp only [List.length_zip] at this
    omega
  have hkn : m.outs.length ≤ k.toNat := by omega
  constructor
  · have hsel : subsetIndices (some (.idx k)) m.outs.length = .ok [k.toNat] := by
      simp only [subsetIndices, hk0, if_true]
    rw [query_compressed_cons m _ k.toNat [] hc hsel]
    unfold compressedRun
    split
    · split
      · rfl
      · simp only [mapIdx, compressedSubset, List.getElem?_eq_none hkn]
        rfl
    · rfl
  · rw [evalPath_eq]
    simp only [mapIdx, specSubset, List.getElem?_eq_none (by omega : nested.length ≤ k.toNat)]
    rfl

/-- compressed data, ANY selection (out-of-range `@[k]` included): results agree, and a failure on one side is a
    failure on the other.  Weaker than `C16_query_eq_eval_compressed` only in not naming the error family — which
    differs in exactly one case, forced by the code's order of evaluation and outside the property: `@[k]` beyond the
    last subset AND a path that fails on the tree (`QueryError` from the code, `IndexError` from the evaluation). -/
theorem C16_query_eq_eval_compressed_any_selection (m : QMsg) (p : Path) (nested : List (List NJ))
    (t0 : List Node) (o0 : SubsetOut) (sel : List Nat)
    (hc : m.compressed = true)
    (ht : ∀ i, i < m.outs.length → m.trees[i]? = some t0) (ho : m.outs[0]? = some o0)
    (hl : ∀ o ∈ m.outs, o.descs = o0.descs)
    (hn : Spec.nestedOf m = .ok nested) (hshape : Spec.shapeOK m = true)
    (hp : Spec.childAttrOnly p.comps = true) (hs : ∀ c ∈ p.comps, Spec.sliceOK c.slice = true)
    (hsel : subsetIndices p.subset m.outs.length = .ok sel) :
    (query m p).toOption = ((Spec.evalPath nested sel p.comps).toOption.map QResult.mk) := by
  have h0 : 0 < m.outs.length := by
    rcases Nat.lt_or_ge 0 m.outs.length with h | h
    · exact h
    · rw [List.getElem?_eq_none h] at ho; cases ho
  cases sel with
  | nil =>
    rw [query_compressed_empty m p hc hsel]; rfl
  | cons i rest =>
    by_cases hi : i < m.outs.length
    · rw [C16_query_eq_eval_compressed_selected m p nested t0 o0 i rest hc ht ho hl hn hshape hp hs hsel hi]
      cases Spec.evalPath nested (i :: rest) p.comps <;> rfl
    · have hq : (query m p).toOption = none := by
        rw [query_compressed_cons m p i rest hc hsel]
        unfold compressedRun
        simp only [ht 0 h0, ho]
        split
        · rfl
        · simp only [mapIdx, compressedSubset, List.getElem?_eq_none (by omega : m.outs.length ≤ i)]
          rfl
      have hsub : specSubset nested p.comps i = .error .other := by
        rw [← uncompressedSubset_eval { m with compressed := false } nested p.comps hn hshape (pathOK_of _ hp hs) i]
        unfold uncompressedSubset
        simp only [List.getElem?_eq_none (by omega : m.outs.length ≤ i)]
      rw [hq, evalPath_eq]
      simp only [mapIdx, hsub]
      rfl

/-! ### the bare id

  `id` alone is the descendant search `>id[:]`.  Proved for all trees (`Lemmas/QueryBare.lean`):
  `C16_bare_id_descent` — the descent through composite nodes (`keep`; factor, then members; every repetition of a
  replication in one list, these lists in one envelope) returns, flattened, exactly the nodes labelled with the id
  in tree order, a matching node not being searched (`matchList`);
  `C16_bare_id_is_flat_filter` — for an ORDINARY element (`Spec.ordinaryList`, decidable: the id labels no attribute
  node at any depth and no valueless node) on a tree whose flat indices in tree order are `0 .. n-1`
  (`C09_wire_indices_consecutive`: tree order = flat order) the flattened values are the values carrying the id in
  the flat data, in flat order; `C16_bare_id_is_flat_filter_wired` discharges the index hypothesis for the trees
  the wiring pass builds; `C16_bare_id_query*` lift it to `DataQuerent.query` (uncompressed and compressed). -/

/-- the component a bare id is parsed into -/
theorem C16_bare_comp (id : List Char) : bare id = { sep := '>', id := id, slice := .range none none none } := rfl

/-- `filter_for_entities` for the bare id: every matching node and every composite node, in document order -/
theorem C16_filter_for_entities_bare {α : Type} (id : List Char) (cls : α → Match) (xs : List α) :
    filterEnt (bare id) cls xs = .ok (xs.filter (fun x => decide (cls x ≠ .no))) :=
  filterEnt_all (bare id) rfl cls xs

/-- the descent: whatever the tree, a successful bare-id search returns (flattened) the nodes carrying the id, in
    tree order: factor / attributes of a node before its members, repetition after repetition -/
theorem C16_bare_id_descent (ds : List DDesc) (tree : List Node) (id : List Char) (hits : List Hit)
    (h : processOne ds tree [bare id] = .ok hits) : hitNodes hits = matchList ds id tree :=
  processOne_bare ds id tree hits h

/-- flattening the nested values = reading the values of the flattened node list -/
theorem C16_values_flatten (vals : List Val) (hits : List Hit) (vs : List QV) (h : valuesOf vals hits = .ok vs) :
    (flattenQV vs).map some = (hitNodes hits).map (nodeVal vals) :=
  valuesOf_flatten vals hits vs h

/-- ONE SUBSET, full statement: the bare id of an ordinary element returns, flattened, every value carrying the id
    in the flat data, in flat order -/
theorem C16_bare_id_is_flat_filter (o : SubsetOut) (tree : List Node) (id : List Char) (hits : List Hit) (vs : List QV)
    (hidx : idxList tree = List.range o.vals.length)
    (hord : Spec.ordinaryList o.descs id tree = true)
    (h : processOne o.descs tree [{ sep := '>', id := id, slice := .range none none none }] = .ok hits)
    (hv : valuesOf o.vals hits = .ok vs) :
    flattenQV vs = ((o.descs.zip o.vals).filter (fun p => ddChars p.1 = id)).map (·.2) :=
  bare_flat o tree id hits vs hidx hord h hv

/-- the same for the tree the wiring pass builds, when the pass consumed the whole flat list (`hn`, the side
    condition of C09 — decidable, evaluated by the driver as part of `side_ok`): `hidx` is a theorem -/
theorem C16_bare_id_is_flat_filter_wired (t : List Desc) (o : SubsetOut) (w : Wired) (tree : List Node) (id : List Char)
    (hits : List Hit) (vs : List QV)
    (hw : wireRaw t o = .ok w) (hn : w.st.next = o.vals.length) (ht : w.tree = .ok tree)
    (hord : Spec.ordinaryList o.descs id tree = true)
    (h : processOne o.descs tree [bare id] = .ok hits) (hv : valuesOf o.vals hits = .ok vs) :
    flattenQV vs = Spec.flatFilter o id := by
  have hwire : wire t o = .ok tree := by unfold wire; rw [hw]; exact ht
  obtain ⟨w', hw', hi⟩ := C16_wire_indices_consecutive t o tree hwire
  rw [hw] at hw'
  cases hw'
  exact bare_flat o tree id hits vs (by rw [hi, hn]) hord h hv

/-- "returns": on a well-shaped tree (`repsOKList`) the bare-id query of an ordinary element does not fail — neither
    the search nor the value pass — and its flattened result is the flat filter -/
theorem C16_bare_id_returns_flat_filter (o : SubsetOut) (tree : List Node) (id : List Char)
    (hidx : idxList tree = List.range o.vals.length) (hord : Spec.ordinaryList o.descs id tree = true)
    (hshape : repsOKList o tree = true) :
    ∃ hits vs, processOne o.descs tree [bare id] = .ok hits ∧ valuesOf o.vals hits = .ok vs ∧
      flattenQV vs = Spec.flatFilter o id :=
  bare_flat_total o tree id hidx hord hshape

/-- for the tree the wiring pass builds, the only hypotheses left are: the pass consumed the whole flat list, and
    the element is ordinary (both decidable) -/
theorem C16_bare_id_returns_flat_filter_wired (t : List Desc) (o : SubsetOut) (w : Wired) (tree : List Node)
    (id : List Char) (hw : wireRaw t o = .ok w) (hn : w.st.next = o.vals.length) (ht : w.tree = .ok tree)
    (hord : Spec.ordinaryList o.descs id tree = true) :
    ∃ hits vs, processOne o.descs tree [bare id] = .ok hits ∧ valuesOf o.vals hits = .ok vs ∧
      flattenQV vs = Spec.flatFilter o id := by
  have hwire : wire t o = .ok tree := by unfold wire; rw [hw]; exact ht
  obtain ⟨w', hw', hi⟩ := C16_wire_indices_consecutive t o tree hwire
  rw [hw] at hw'
  cases hw'
  exact bare_flat_total o tree id (by rw [hi, hn]) hord (C16_wire_shape t o tree hwire)

/-- WHOLE MESSAGE, uncompressed data: every subset of the result of a bare-id query holds, flattened, the values
    carrying the id in the flat data of that subset, in order (with or without an `@` selector) -/
theorem C16_bare_id_query (m : QMsg) (sel : Option Slice) (id : List Char) (r : QResult)
    (hc : m.compressed = false)
    (hyp : ∀ (i : Nat) (o : SubsetOut) (t : List Node), m.outs[i]? = some o → m.trees[i]? = some t →
      idxList t = List.range o.vals.length ∧ Spec.ordinaryList o.descs id t = true)
    (h : query m { subset := sel, comps := [bare id] } = .ok r) :
    ∀ q ∈ r.subsets, ∃ o, m.outs[q.1]? = some o ∧ flattenQV q.2 = Spec.flatFilter o id := by
  unfold query at h
  split at h
  · cases h
  · next idxs _ =>
    simp only [hc, Bool.false_eq_true, if_false] at h
    split at h
    · cases h
    · next rs hrs =>
      cases h
      intro q hq
      obtain ⟨i, _, hi⟩ := mapIdx_mem _ idxs rs hrs q hq
      unfold uncompressedSubset at hi
      split at hi
      · cases hi
      · next o ho =>
        split at hi
        · cases hi
        · next t ht =>
          split at hi
          · cases hi
          · next hits hh =>
            split at hi
            · cases hi
            · next vs hv =>
              cases hi
              obtain ⟨h1, h2⟩ := hyp i o t ho ht
              exact ⟨o, ho, bare_flat o t id hits vs h1 h2 hh hv⟩

/-- WHOLE MESSAGE, compressed data (one tree `t0`, equal labels): the same, the values being those of each subset -/
theorem C16_bare_id_query_compressed (m : QMsg) (sel : Option Slice) (id : List Char) (r : QResult)
    (t0 : List Node) (o0 : SubsetOut)
    (hc : m.compressed = true) (ht : m.trees[0]? = some t0) (ho : m.outs[0]? = some o0)
    (hl : ∀ o ∈ m.outs, o.descs = o0.descs)
    (hyp : ∀ o ∈ m.outs, idxList t0 = List.range o.vals.length ∧ Spec.ordinaryList o.descs id t0 = true)
    (h : query m { subset := sel, comps := [bare id] } = .ok r) :
    ∀ q ∈ r.subsets, ∃ o, m.outs[q.1]? = some o ∧ flattenQV q.2 = Spec.flatFilter o id := by
  cases hs : subsetIndices sel m.outs.length with
  | error e => rw [query_selector_error m _ e hs] at h; cases h
  | ok idxs =>
    cases idxs with
    | nil =>
      rw [query_compressed_empty m _ hc hs] at h
      cases h
      intro q hq
      cases hq
    | cons i0 is =>
      rw [query_compressed_cons m _ i0 is hc hs] at h
      unfold compressedRun at h
      simp only [ht, ho] at h
      split at h
      · cases h
      · next hits hh =>
        split at h
        · cases h
        · next rs hrs =>
          cases h
          intro q hq
          obtain ⟨i, _, hi⟩ := mapIdx_mem _ (i0 :: is) rs hrs q hq
          unfold compressedSubset at hi
          split at hi
          · cases hi
          · next o hoi =>
            split at hi
            · cases hi
            · next vs hv =>
              cases hi
              have hmem := List.mem_of_getElem? hoi
              obtain ⟨h1, h2⟩ := hyp o hmem
              refine ⟨o, hoi, bare_flat o t0 id hits vs h1 h2 ?_ hv⟩
              rw [hl o hmem]; exact hh

/-! ### non-vacuity: a wired tree with a delayed replication (counts 2 and 0) and associated-field attributes -/

namespace C16ex
open Bufr.Query Bufr.PathLang

mutual
def beqQV : QV → QV → Bool
  | .val a, .val b => a == b
  | .list a, .list b => beqQVs a b
  | _, _ => false
def beqQVs : List QV → List QV → Bool
  | [], [] => true
  | a :: as, b :: bs => beqQV a b && beqQVs as bs
  | _, _ => false
end

def beqRes (r : CM QResult) (want : List (Nat × List QV)) : Bool :=
  match r with
  | .ok q => q.subsetIndices == want.map (·.1) && beqQVs (q.subsets.map fun p => QV.list p.2) (want.map fun p => QV.list p.2)
  | .error _ => false

def e (id nbits : Nat) : Elem := { id := id, kind := .numeric, nbits := nbits, scale := 0, ref := 0 }

/-- `204004 031021 101000 031001 012001 204000 001001`: a delayed replication under an associated field -/
def T : List Desc :=
  [.op 204004, .elem (e 31021 6), .delayedRep 101000 (.elem (e 31001 8)) [.elem (e 12001 12)],
   .op 204000, .elem (e 1001 7)]

def O1 : SubsetOut :=
  { descs := [.plain (e 31021 6), .plain (e 31001 8), .assoc 12001 4, .plain (e 12001 12),
              .assoc 12001 4, .plain (e 12001 12), .plain (e 1001 7)]
    vals := [.int 1, .int 2, .int 5, .int 280, .int 6, .int 281, .int 99]
    links := [] }

def O2 : SubsetOut :=
  { descs := [.plain (e 31021 6), .plain (e 31001 8), .plain (e 1001 7)]
    vals := [.int 1, .int 0, .int 98]
    links := [] }

def msg : CM QMsg := mkMsg T false [O1, O2]

def c (sep : Char) (id : String) (s : Slice) : Comp := { sep := sep, id := id.toList, slice := s }
def all : Slice := .range none none none

def run (sel : Option Slice) (comps : List Comp) : CM QResult :=
  match msg with
  | .error e => .error e
  | .ok m => query m { subset := sel, comps := comps }

example : beqRes (run none [c '/' "101000" all, c '/' "012001" all])
    [(0, [.list [.list [.val (.int 280)], .list [.val (.int 281)]]]), (1, [])] = true := by decide +kernel
example : beqRes (run none [c '/' "101000" all, c '/' "012001" all, c '.' "A12001" all])
    [(0, [.list [.list [.val (.int 5)], .list [.val (.int 6)]]]), (1, [])] = true := by decide +kernel
example : beqRes (run (some (.range (some (-1)) none none)) [c '/' "101000" all, c '.' "031001" (.idx 0)])
    [(1, [.val (.int 0)])] = true := by decide +kernel
example : beqRes (run none [c '>' "012001" (.range none none (some (-1)))])
    [(0, [.list [.list [.val (.int 280)], .list [.val (.int 281)]]]), (1, [])] = true := by decide +kernel
/-- the hypothesis of `C16_subset_selector` holds here (the unselected query succeeds) and the selector picks subset 1 -/
example : (run none [c '/' "101000" all, c '.' "031001" (.idx 0)]).toOption.isSome = true := by decide +kernel
example : subsetIndices (some (.range (some (-1)) none none)) 2 = .ok [1] := by decide

/-! non-vacuity of `C16_query_eq_eval*`: the hypotheses hold on the example message (rendering succeeds, shape
    condition true, path of child / attribute steps), and both sides of the conclusion evaluate to the expected lists -/

def p3 : List Comp := [c '/' "101000" all, c '/' "012001" (.range none none (some (-1))), c '.' "A12001" (.idx 0)]

def isErr {α : Type} (e : Err) : CM α → Bool
  | .error e' => e' == e
  | .ok _ => false

def beqSubs (r : CM (List (Nat × List QV))) (want : List (Nat × List QV)) : Bool :=
  match r with
  | .ok q => q.map (·.1) == want.map (·.1) && beqQVs (q.map fun p => QV.list p.2) (want.map fun p => QV.list p.2)
  | .error _ => false

example : (match msg with
    | .ok m => !m.compressed && (Spec.nestedOf m).toOption.isSome && Spec.shapeOK m
    | .error _ => false) = true := by decide +kernel
example : Spec.childAttrOnly p3 = true ∧ ∀ c' ∈ p3, Spec.sliceOK c'.slice = true := by decide
example : (match msg with
    | .ok m => (match Spec.nestedOf m with
      | .ok nj => beqSubs (Spec.evalPath nj [0, 1] p3) [(0, [.list [.list [.val (.int 5)], .list [.val (.int 6)]]]), (1, [])]
      | .error _ => false)
    | .error _ => false) = true := by decide +kernel
example : beqRes (run none p3) [(0, [.list [.list [.val (.int 5)], .list [.val (.int 6)]]]), (1, [])] = true := by
  decide +kernel
/-- a failing path fails on both sides with `QueryError` (`/001001/012001`: a value node has no child nodes) -/
example : isErr .query (run none [c '/' "001001" all, c '/' "012001" all]) = true := by decide +kernel
example : (match msg with
    | .ok m => (match Spec.nestedOf m with
      | .ok nj => isErr .query (Spec.evalPath nj [0, 1] [c '/' "001001" all, c '/' "012001" all])
      | .error _ => false)
    | .error _ => false) = true := by decide +kernel
/-- `C16_sub_nodes_eq_eval_at` / `C16_query_eq_eval_subset` on the first subset: tree, rendering, shape -/
example : (match wire T O1 with
    | .ok tree => (renderNested O1 tree).toOption.isSome && repsOKList O1 tree
    | .error _ => false) = true := by decide +kernel
example : (match wire T O1 with
    | .ok tree => (match renderNested O1 tree with
      | .ok js => beqQVs ((Spec.evalComps js p3).toOption.getD []) [.list [.list [.val (.int 5)], .list [.val (.int 6)]]]
      | .error _ => false)
    | .error _ => false) = true := by decide +kernel

/-- `C16_wire_shape`, `C16_wire_indices_consecutive`, `C16_mkMsg_shape`: the wiring succeeds here (7 indices) -/
example : ((wire T O1).toOption.map idxList) = some [0, 1, 2, 3, 4, 5, 6] := by decide +kernel
example : (msg).toOption.isSome = true := by decide +kernel

/-! non-vacuity of the bare-id theorems: `012001` (in a delayed replication, each value under an associated field
    whose attribute is the 031021 meaning) and the replication factor `031001` are ordinary, `031021` is not (it
    also labels the meaning attribute); indices consecutive; the query succeeds and returns the flat values -/
def beqVals (a b : List Val) : Bool := a == b

example : (match wire T O1 with
    | .ok tree => Spec.ordinaryList O1.descs "012001".toList tree && Spec.ordinaryList O1.descs "031001".toList tree &&
        !Spec.ordinaryList O1.descs "031021".toList tree && decide (idxList tree = List.range O1.vals.length)
    | .error _ => false) = true := by decide +kernel
example : (match wire T O1 with
    | .ok tree => (match processOne O1.descs tree [bare "012001".toList] with
      | .ok hits => (match valuesOf O1.vals hits with
        | .ok vs => beqVals (flattenQV vs) [.int 280, .int 281] &&
            beqQVs vs [.list [.list [.val (.int 280)], .list [.val (.int 281)]]] &&
            decide ((hitNodes hits).length = 2)
        | .error _ => false)
      | .error _ => false)
    | .error _ => false) = true := by decide +kernel
example : Spec.flatFilter O1 "012001".toList = [.int 280, .int 281] := by decide +kernel
example : Spec.flatFilter O1 "031001".toList = [.int 2] := by decide +kernel
/-- the hypotheses of `C16_bare_id_is_flat_filter_wired` (the pass consumes all 7 values) -/
example : ((wireRaw T O1).toOption.map fun w => decide (w.st.next = O1.vals.length) && w.tree.toOption.isSome) = some true := by
  decide +kernel
/-- `C16_bare_id_query`: in every subset of the example message the indices are consecutive and `012001` is ordinary -/
example : (match msg with
    | .ok m => (m.outs.zip m.trees).all fun p =>
        decide (idxList p.2 = List.range p.1.vals.length) && Spec.ordinaryList p.1.descs "012001".toList p.2
    | .error _ => false) = true := by decide +kernel
/-- `C16_query_first_step` -/
example : (match wire T O1 with
    | .ok tree => (match processOne O1.descs tree [c '/' "001001" all] with
      | .ok hits => decide (hits.length = 1)
      | .error _ => false)
    | .error _ => false) = true := by decide +kernel
/-- whole message: the bare id over both subsets (2 values, none), and over the compressed message -/
example : (match run none [bare "012001".toList] with
    | .ok r => r.allValuesFlat == [[.int 280, .int 281], []]
    | .error _ => false) = true := by decide +kernel
example : filterEnt (bare "x".toList) (fun (n : Nat) => if n = 0 then Match.no else if n = 1 then .hit else .keep) [2, 0, 1, 1, 0, 3]
    = (.ok [2, 1, 1, 3] : CM (List Nat)) := by decide +kernel

/-- compressed data: two subsets with the same labels and the same replication count sharing one tree -/
def O1b : SubsetOut := { O1 with vals := [.int 1, .int 2, .int 7, .int 290, .int 8, .int 291, .int 97] }
def cmsg : CM QMsg := mkMsg T true [O1, O1b]

example : (match cmsg with
    | .ok m => m.compressed && (Spec.nestedOf m).toOption.isSome && Spec.shapeOK m &&
        (m.outs.all fun o => o.descs == O1.descs) &&
        (match m.trees[0]? with
         | some t0 => (processOne O1.descs t0 p3).toOption.isSome
         | none => false)
    | .error _ => false) = true := by decide +kernel
example : (match cmsg with
    | .ok m => beqRes (query m { subset := none, comps := p3 })
        [(0, [.list [.list [.val (.int 5)], .list [.val (.int 6)]]]), (1, [.list [.list [.val (.int 7)], .list [.val (.int 8)]]])]
    | .error _ => false) = true := by decide +kernel
example : (cmsg).toOption.isSome = true := by decide +kernel     -- hypothesis of `C16_compressed_trees_shared`
/-- hypotheses of `C16_mkMsg_shape_compressed`: both subsets carry the replication count 2 of subset 0 -/
example : (match wire T O1 with
    | .ok t0 => Spec.sameCountsList O1 O1 t0 && Spec.sameCountsList O1 O1b t0 && !Spec.sameCountsList O1 O2 t0
    | .error _ => false) = true := by decide +kernel
/-- `C16_query_eq_eval_compressed_selected`: without a selector the first selected subset is subset 0 -/
example : subsetIndices none 2 = .ok (0 :: [1]) := by decide
/-- the empty selection (fix F16c): `@[7:]` on two subsets with a path that fails on the tree (`/001001/012001`, a
    value node has no child nodes) answers with the empty result, as the evaluation over no subset does and as the
    uncompressed query does; with a selection the same path raises `QueryError` -/
example : subsetIndices (some (.range (some 7) none none)) 2 = .ok [] := by decide
example : (match cmsg with
    | .ok m => beqRes (query m { subset := some (.range (some 7) none none), comps := [c '/' "001001" all, c '/' "012001" all] }) []
    | .error _ => false) = true := by decide +kernel
example : Spec.evalPath [] [] [c '/' "001001" all, c '/' "012001" all] = .ok [] := rfl
example : (match cmsg with
    | .ok m => isErr .query (query m { subset := some (.range (some 1) none none), comps := [c '/' "001001" all, c '/' "012001" all] })
    | .error _ => false) = true := by decide +kernel
/-- `C16_query_compressed_subset_out_of_range`: `@[7]`, the path failing too — `QueryError` from the code -/
example : (match cmsg with
    | .ok m => isErr .query (query m { subset := some (.idx 7), comps := [c '/' "001001" all, c '/' "012001" all] }) &&
        isErr .other (query m { subset := some (.idx 7), comps := [c '/' "001001" all] })
    | .error _ => false) = true := by decide +kernel
/-- `C16_bare_id_query_compressed` on the compressed message: hypotheses, result -/
example : (match cmsg with
    | .ok m => (m.outs.zip m.trees).all fun p =>
        decide (idxList p.2 = List.range p.1.vals.length) && Spec.ordinaryList p.1.descs "012001".toList p.2
    | .error _ => false) = true := by decide +kernel
example : (match cmsg with
    | .ok m => (match query m { subset := none, comps := [bare "012001".toList] } with
      | .ok r => r.allValuesFlat == [[.int 280, .int 281], [.int 290, .int 291]]
      | .error _ => false)
    | .error _ => false) = true := by decide +kernel
end C16ex


end Bufr
