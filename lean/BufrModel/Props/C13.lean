/-
  C13 — no hidden state: results do not depend on what was processed before.
  Property theorems only (helper lemmas: `Lemmas/Cache.lean`; model: `Msg/Cache.lean`).

  All theorems hold for histories of ANY length, any cache limits (including the degenerate limits
  0 and 1) and any coder functions (`Params`: the coder, compiler, wiring pass, renderers and
  queries are arbitrary pure, possibly failing functions).

  What the model can and cannot say.  In the model the two caches are memo tables of pure functions,
  the coder state is created per message, and every value is immutable.  The theorems therefore
  establish that the *plumbing* (when a cache is consulted and filled, the `popitem` eviction loop,
  what a failing stage leaves behind, the wire-once flag, shadowed message objects) introduces no
  dependence on history.  They CANNOT exhibit a dependence that goes through Python object
  identity: the descriptor objects cached inside `TableB/TableC/TableD` are shared by every
  template, compiled template and decoded message of the process, and a decode that mutated one of
  them (or the `[[]] * n` aliased lists) would change later results without contradicting anything
  proved here.  That half of the property is carried by the correspondence check only
  (`harness/props/c13.py`: every output after a random history vs the same operation in a fresh
  interpreter).  The property is labelled PARTIAL for this reason.
-/
import BufrModel.Msg.Cache
import BufrModel.Lemmas.Cache
namespace Bufr.Cache

section
variable {κ γ τ χ ι δ ν φ ω : Type} [DecidableEq κ] [DecidableEq ι]
variable (P : Params κ γ τ χ ι δ ν φ ω)

/-- After any history the process-wide table-group cache is a memo table of `loadGroup`: every
    cached group is the one loading its key gives, keys are distinct, and there are never more than
    `MAXIMUM_NUMBER_OF_CACHED_TABLE_GROUPS` entries (for every limit; with limit 0 the cache stays
    empty because every request raises `KeyError` out of the `popitem` loop). -/
theorem C13_table_cache_invariant (hist : List (Op ι φ)) :
    let s := (run P (State.init : State κ γ χ ι δ ν) hist).1
    (∀ k g, (k, g) ∈ s.tables → P.loadGroup k = .ok g) ∧ s.tables.keys.Nodup ∧ s.tables.length ≤ P.limit := by
  intro s
  have h := (run_spec P State.init hist (Inv.init P)).1.tables
  exact ⟨fun k g hm => h.1 (k, g) hm, h.2.1, h.2.2⟩

/-- After any history the compiled-template cache of every coder object is a memo table of
    "load the group of the key, build the template from the key's ids, compile": distinct keys
    `(ids, table group key)`, at most `cache_max` entries (none at all for `cache_max = 0` or when
    compilation is off). -/
theorem C13_compiled_cache_invariant (hist : List (Op ι φ)) (c : Nat) :
    let s := (run P (State.init : State κ γ χ ι δ ν) hist).1
    (∀ ck x, (ck, x) ∈ s.compiled c → compileFor P ck = .ok x) ∧ (s.compiled c).keys.Nodup ∧
    (s.compiled c).length ≤ (P.cacheMax c).getD 0 := by
  intro s
  have h := (run_spec P State.init hist (Inv.init P)).1.compiled c
  exact ⟨fun ck x hm => h.1 (ck, x) hm, h.2.1, h.2.2⟩

/-- The output of an operation after any history is the output of the stateless reference
    semantics `pureOut` (no caches, no kept objects). -/
theorem C13_output_is_stateless (hist : List (Op ι φ)) (op : Op ι φ) :
    (step P (run P (State.init : State κ γ χ ι δ ν) hist).1 op).2 = pureOut P op :=
  (step_spec P _ op (run_spec P State.init hist (Inv.init P)).1).2

/-- History independence: whatever was decoded, encoded, failed, evicted, rendered or queried
    before — with whichever coder objects — an operation returns exactly what it returns as the
    first operation of a fresh process.  (Table-definition messages are outside the model: extra
    entries are frozen empty.) -/
theorem C13_history_independent (hist : List (Op ι φ)) (op : Op ι φ) :
    (step P (run P (State.init : State κ γ χ ι δ ν) hist).1 op).2 =
    (step P (State.init : State κ γ χ ι δ ν) op).2 := by
  rw [C13_output_is_stateless P hist op]
  exact (step_spec P State.init op (Inv.init P)).2.symm

/-- A failing operation may well change the state (the eviction loop runs before the tables are
    loaded; a compiled template is cached before the data are decoded; a failed wiring pass resets
    the node list), but the state it leaves is observationally equivalent to the state before:
    every sequence of later operations produces the same outputs. -/
theorem C13_failed_op_leaves_state_equivalent (hist : List (Op ι φ)) (op : Op ι φ)
    (_hfail : (step P (run P (State.init : State κ γ χ ι δ ν) hist).1 op).2.isErr = true)
    (future : List (Op ι φ)) :
    (run P (step P (run P (State.init : State κ γ χ ι δ ν) hist).1 op).1 future).2 =
    (run P (run P (State.init : State κ γ χ ι δ ν) hist).1 future).2 := by
  have h0 := (run_spec P State.init hist (Inv.init P)).1
  have h1 := (step_spec P _ op h0).1
  rw [(run_spec P _ future h1).2, (run_spec P _ future h0).2]

/-- The same holds for every operation, failing or not (the hypothesis above is not needed). -/
theorem C13_any_op_leaves_state_equivalent (hist : List (Op ι φ)) (op : Op ι φ) (future : List (Op ι φ)) :
    (run P (step P (run P (State.init : State κ γ χ ι δ ν) hist).1 op).1 future).2 =
    (run P (run P (State.init : State κ γ χ ι δ ν) hist).1 future).2 := by
  have h0 := (run_spec P State.init hist (Inv.init P)).1
  have h1 := (step_spec P _ op h0).1
  rw [(run_spec P _ future h1).2, (run_spec P _ future h0).2]

end

/-- Wire-once: a second `wire()` changes nothing and has the same outcome as the first, for every
    object.  `nodes` is the list the code APPENDS to, so this is the statement that the flag
    prevents double wiring (compare `wireNoFlag` in the examples below). -/
theorem C13_wire_idempotent {δ ν : Type} (wireFn : δ → Except Err (List ν)) (o : Obj δ ν) :
    ((o.wire wireFn).1.wire wireFn) = o.wire wireFn := by
  unfold Obj.wire
  cases hw : o.isWired with
  | true => simp [hw]
  | false =>
    simp only [Bool.false_eq_true, if_false]
    cases hf : wireFn o.data with
    | error e => simp [hf]
    | ok ns => simp

/-- However often `wire()` is called on an object as the coder returns it (unwired, no nodes), the
    nodes are those of exactly one wiring pass. -/
theorem C13_wire_repeated_nodes {δ ν : Type} (wireFn : δ → Except Err (List ν)) (d : δ) (ns : List ν)
    (hw : wireFn d = .ok ns) (n : Nat) :
    (Nat.repeat (fun o => (o.wire wireFn).1) (n + 1) ({ data := d, nodes := [], isWired := false } : Obj δ ν)) =
    { data := d, nodes := ns, isWired := true } := by
  induction n with
  | zero => simp [Nat.repeat, Obj.wire, hw]
  | succ n ih =>
    rw [Nat.repeat, ih]
    simp [Obj.wire]

/-! ### Non-vacuity and sanity examples (concrete instance: keys are numbers, loading key `k` gives
    `k + 100`, key 9 cannot be loaded) -/

def exLoad (k : Nat) : Except Err Nat := if k = 9 then .error .lib else .ok (k + 100)

/-- eviction order of `popitem`: with limit 2 the most recently inserted entry goes -/
example : (tableGet 2 exLoad [(1, 101), (2, 102)] 3).1 = [(1, 101), (3, 103)] := by decide
/-- limit 1 empties the cache before every load -/
example : (tableGet 1 exLoad [(1, 101)] 3).1 = [(3, 103)] := by decide
/-- limit 0: `KeyError`, cache left empty -/
example : tableGet 0 exLoad ([] : Dict Nat Nat) 3 = ([], .error .other) := by decide
/-- limit 3 with 5 entries (limit lowered at run time): three are popped -/
example : (tableGet 3 exLoad [(1, 101), (2, 102), (3, 103), (4, 104), (5, 105)] 6).1 = [(1, 101), (2, 102), (6, 106)] := by decide
/-- a failing load has already evicted -/
example : tableGet 2 exLoad [(1, 101), (2, 102)] 9 = ([(1, 101)], .error .lib) := by decide
/-- a hit changes nothing (no LRU reordering) -/
example : tableGet 2 exLoad [(1, 101), (2, 102)] 1 = ([(1, 101), (2, 102)], .ok 101) := by decide
/-- compiled cache: one `popitem` when full; nothing stored for `cache_max = 0` -/
example : (compiledGet 2 (.ok 7) [(1, 5), (2, 6)] (3 : Nat)).1 = [(1, 5), (3, 7)] := by decide
example : compiledGet 0 (.ok 7) ([] : Dict Nat Nat) 3 = ([], .ok 7) := by decide

/-- a concrete process: decode succeeds for inputs < 5 and fails for the others -/
def exP : Params Nat Nat Nat Nat Nat Nat Nat Nat Nat where
  limit := 2
  cacheMax := fun c => if c = 0 then none else some (c - 1)
  header := fun _ m => if m = 7 then .error .bitRead else .ok (m % 4, [m])
  loadGroup := exLoad
  build := fun g ids => .ok (g + ids.length)
  compile := fun g t => .ok (g * 1000 + t)
  process := fun _ g t oc m => if m < 5 then .ok (g + t + m + (oc.getD 0)) else .error .lib
  wireFn := fun d => if d % 2 = 0 then .ok [d, d] else .error .other
  view := fun v d ns => .ok (v + d + ns.length)

/-- the failing hypothesis of `C13_failed_op_leaves_state_equivalent` is satisfiable, and a failing
    operation does change the state (here: an eviction and a compiled template cached) -/
example : (step exP (run exP State.init [.proc 2 .decode 1 true, .proc 2 .decode 2 true]).1 (.proc 2 .decode 11 false)).2.isErr = true := by
  decide
example : (step exP (run exP State.init [.proc 2 .decode 1 true, .proc 2 .decode 2 true]).1 (.proc 2 .decode 11 false)).1.tables.keys
    ≠ (run exP State.init [.proc 2 .decode 1 true, .proc 2 .decode 2 true]).1.tables.keys := by
  decide

/-- without the flag a second wiring pass duplicates the nodes: the hypothesis-free analogue of
    `C13_wire_idempotent` is false for `wireNoFlag` -/
example : let o : Obj Nat Nat := { data := 1, nodes := [], isWired := false }
    ((o.wireNoFlag (fun d => .ok [d])).1.wireNoFlag (fun d => .ok [d])).1.nodes = [1, 1] := by decide
example : let o : Obj Nat Nat := { data := 1, nodes := [], isWired := false }
    ((o.wire (fun d => .ok [d])).1.wire (fun d => .ok [d])).1.nodes = [1] := by decide

end Bufr.Cache
