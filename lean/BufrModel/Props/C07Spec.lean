/-
  C07 — THE HEADLINE: the attribute links the coder records are exactly the links the specification
  `Spec.links` computes after the fact from the flat item list.

  `C07_links_eq_spec`: for EVERY template that satisfies the decidable predicate `Spec.WFlinks` (replications
  nested to any depth, sequences, every operator, 235000 / 236000 / 237000 / 237255 included), every bit
  string, if `decodeSubset` succeeds and the reported items satisfy the decidable predicate `Spec.markersOk`,
  then `links of the output = Spec.links (items of the output) cancels`, where `cancels` are the times at
  which the run processed a 235000 (`Spec.cancelsL`, read off the run; `[]` for templates without 235YYY:
  `C07_links_eq_spec_no235`).

  `Spec.markersOk` excludes exactly the two classes of items in which the code is known to deviate from
  FM 94 (open findings F-C07-marker-class33, F11-C07-links-marker); the walk model mirrors the code there,
  so the equality is FALSE for them: `C07_links_ne_spec_marker_class33`, `C07_links_ne_spec_assoc_marker`
  (concrete witnesses, by `decide`).

  How it is proved (Lemmas/LinksFold*.lean, Lemmas/LinkSpec*.lean): (1) `Spec.links` — an after-the-fact
  recomputation with position look-ups — is shown equal to a LEFT FOLD over the items (`Spec.linksFold_eq`,
  for all item lists and cancel times, by an invariant of the fold); (2) the registers of the walk are tied
  to the state of that fold over the items recorded so far (`C07.Core`) and the tie is carried through every
  step and through the mutual recursion over the template (`C07.presG_walkL`).
-/
import BufrModel.Lemmas.LinkSpecFinal
import BufrModel.Props.C07Subsets
namespace Bufr
open Bufr.C07

/-- what `decodeSubset` reports, in terms of the final state of the walk -/
theorem decodeSubset_items (t : List Desc) (bits : Bits) (o : SubsetOut) (rest : Bits)
    (h : decodeSubset t bits = .ok (o, rest)) :
    ∃ s, walkList decPrimsU t { bits := bits, vals := [[]] } = .ok s ∧ o.descs = s.descs.reverse ∧
      o.vals = (s.vals.headD []).reverse ∧ o.links = s.links.reverse := by
  unfold decodeSubset at h
  cases hw : walkList decPrimsU t { bits := bits, vals := [[]] } with
  | error e => rw [hw] at h; cases h
  | ok s =>
    rw [hw] at h
    cases h
    exact ⟨s, rfl, rfl, rfl, rfl⟩

/-- THE HEADLINE, one subset: the links recorded by the decoder's walk of a `WFlinks` template are
    `Spec.links` of the reported items, with the cancel times of the run. -/
theorem C07_links_eq_spec (t : List Desc) (bits : Bits) (o : SubsetOut) (rest : Bits)
    (h : decodeSubset t bits = .ok (o, rest)) (hwf : Spec.WFlinks t)
    (hok : Spec.markersOk (o.descs.zip o.vals) = true) :
    o.links = Spec.links (o.descs.zip o.vals) (Spec.cancelsL decPrimsU t { bits := bits, vals := [[]] }) := by
  obtain ⟨s, hw, hd, hv, hl⟩ := decodeSubset_items t bits o rest h
  -- the values reported are the values `decV` reads
  have hg := grows_walkList decPrimsU_rec t _ s (by rfl) hw
  have hvals : s.vals.length = 1 := hg.2.2.1
  have hV : decV s = (s.vals.headD []).reverse := by
    unfold decV
    cases hs : s.vals with
    | nil => rw [hs] at hvals; cases hvals
    | cons l r => rfl
  have hitems : items decV s = o.descs.zip o.vals := by
    unfold items; rw [hd, hv, hV]
  rw [← hitems] at hok
  have := (walk_links_eq_spec decPrimsU_rec t hwf _ s rfl rfl rfl rfl trivial hw hok).1
  rw [hl, this, hitems]

end Bufr
