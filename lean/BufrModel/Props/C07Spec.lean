/-
  C07 — THE HEADLINE: the attribute links the coder records are exactly the links the specification
  `Spec.links` computes after the fact from the flat item list.

  `C07_links_eq_spec`: for EVERY template that satisfies the decidable predicate `Spec.WFlinks` (replications
  nested to any depth, sequences, every operator, 235000 / 236000 / 237000 / 237255 included), every bit
  string, if `decodeSubset` succeeds and the reported items satisfy the decidable predicate `Spec.markersOk`,
  then `links of the output = Spec.links (items of the output) cancels`, where `cancels` are the times at
  which the run processed a 235000 (`Spec.cancelsL`, read off the run; `[]` for templates without 235YYY:
  `C07_links_eq_spec_no235`).

  `Spec.markersOk` excludes exactly the two classes of items in which the code is known to deviate from
  FM 94 (open findings F-C07-marker-class33, F11-C07-links-marker); the walk model mirrors the code there,
  so the equality is FALSE for them: `C07_links_ne_spec_marker_class33`, `C07_links_ne_spec_assoc_marker`
  (concrete witnesses, by `decide`).

  How it is proved (Lemmas/LinksFold*.lean, Lemmas/LinkSpec*.lean): (1) `Spec.links` — an after-the-fact
  recomputation with position look-ups — is shown equal to a LEFT FOLD over the items (`Spec.linksFold_eq`,
  for all item lists and cancel times, by an invariant of the fold); (2) the registers of the walk are tied
  to the state of that fold over the items recorded so far (`C07.Core`) and the tie is carried through every
  step and through the mutual recursion over the template (`C07.presG_walkL`).
-/
import BufrModel.Lemmas.LinkSpecOut
import BufrModel.Props.C07Subsets
namespace Bufr
open Bufr.C07

/-- THE HEADLINE, one subset: the links recorded by the decoder's walk of a `WFlinks` template are
    `Spec.links` of the reported items, with the cancel times of the run. -/
theorem C07_links_eq_spec (t : List Desc) (bits : Bits) (o : SubsetOut) (rest : Bits)
    (h : decodeSubset t bits = .ok (o, rest)) (hwf : Spec.WFlinks t)
    (hok : Spec.markersOk (o.descs.zip o.vals) = true) :
    o.links = Spec.links (o.descs.zip o.vals) (Spec.cancelsL decPrimsU t { bits := bits, vals := [[]] }) := by
  obtain ⟨s, hw, hd, hv, hl⟩ := decodeSubset_items t bits o rest h
  -- the values reported are the values `decV` reads
  have hg := grows_walkList decPrimsU_rec t _ s (by rfl) hw
  have hvals : s.vals.length = 1 := hg.2.2.1
  have hV : decV s = (s.vals.headD []).reverse := by
    unfold decV
    cases hs : s.vals with
    | nil => rw [hs] at hvals; cases hvals
    | cons l r => rfl
  have hitems : items decV s = o.descs.zip o.vals := by
    unfold items; rw [hd, hv, hV]
  rw [← hitems] at hok
  have := (walk_links_eq_spec decPrimsU_rec t hwf _ s rfl rfl rfl rfl trivial hw hok).1
  rw [hl, this, hitems]

/-- COMPLETENESS, spelled out: under the same hypotheses every marker value (223255 / 224255 / 225255 / 232255)
    and every class 33 value in the stretch announced by 222000 (`Spec.consumes`) has got a link. -/
theorem C07_links_complete (t : List Desc) (bits : Bits) (o : SubsetOut) (rest : Bits)
    (h : decodeSubset t bits = .ok (o, rest)) (hwf : Spec.WFlinks t)
    (hok : Spec.markersOk (o.descs.zip o.vals) = true) :
    ∀ i, Spec.consumes (o.descs.zip o.vals) i = true → ∃ owner, (i, owner) ∈ o.links := by
  obtain ⟨s, hw, hd, hv, hl⟩ := decodeSubset_items t bits o rest h
  have hg := grows_walkList decPrimsU_rec t _ s (by rfl) hw
  have hvals : s.vals.length = 1 := hg.2.2.1
  have hV : decV s = (s.vals.headD []).reverse := by
    unfold decV
    cases hs : s.vals with
    | nil => rw [hs] at hvals; cases hvals
    | cons l r => rfl
  have hitems : items decV s = o.descs.zip o.vals := by
    unfold items; rw [hd, hv, hV]
  rw [← hitems] at hok ⊢
  intro i hi
  obtain ⟨ow, hm⟩ := (walk_links_eq_spec decPrimsU_rec t hwf _ s rfl rfl rfl rfl trivial hw hok).2.2.2 i hi
  exact ⟨ow, by rw [hl]; exact List.mem_reverse.mpr hm⟩

/-! ### non-vacuity and the two excluded classes -/

namespace C07ex
def q33 : Elem := e 33007 3
/-- `222000 236000 101002 031031`, one quality-information value; then `235000` and a second bit-map
    (`223000 101001 031031 223255`) that counts back afresh — to `001003`, not to `001001 001002` -/
def tmpl2 : List Desc :=
  [.elem (e 1001 4), .elem (e 1002 4), .op 222000, .op 236000, .fixedRep 101002 [.elem bit], .elem q33, .elem (e 1003 4),
   .op 235000, .op 223000, .fixedRep 101001 [.elem bit], .op 223255]
def bits2 : Bits := toBits 4 3 ++ toBits 4 5 ++ [false, true] ++ toBits 3 6 ++ toBits 4 9 ++ [false] ++ toBits 4 11
def out2 : SubsetOut :=
  { descs := [.plain (e 1001 4), .plain (e 1002 4), .oper 222000, .oper 236000, .plain bit, .plain bit, .plain q33,
              .plain (e 1003 4), .oper 223000, .plain bit, .marker 223255 (e 1003 4)],
    vals := [.int 3, .int 5, .int 0, .int 0, .int 0, .int 1, .int 6, .int 9, .int 0, .int 0, .int 11],
    links := [(6, 0), (10, 7)] }
/-- F-C07-marker-class33: the second 223255 stands for the class 33 element while quality information is pending -/
def tmplF1 : List Desc :=
  [.elem (e 1001 4), .elem q33, .elem (e 1002 4), .op 222000, .op 236000, .fixedRep 101003 [.elem bit], .op 223000,
   .op 237000, .op 223255, .op 223255]
def bitsF1 : Bits := toBits 4 3 ++ toBits 3 1 ++ toBits 4 5 ++ [false, false, false] ++ toBits 4 7 ++ toBits 3 2
/-- F11-C07-links-marker: 204002 in force over 223255 -/
def tmplF2 : List Desc :=
  [.elem (e 1001 4), .op 223000, .fixedRep 101001 [.elem bit], .op 204002, .elem (e 31021 6), .op 223255, .op 204000]
def bitsF2 : Bits := toBits 4 3 ++ [false] ++ toBits 6 1 ++ toBits 2 1 ++ toBits 2 2 ++ toBits 4 7
end C07ex

open C07ex in
/-- the marker at 10 and the class 33 value at 6 of `out2` want an owner (and have one) -/
example : Spec.consumes (out2.descs.zip out2.vals) 6 = true ∧ Spec.consumes (out2.descs.zip out2.vals) 10 = true ∧
    Spec.consumes (out2.descs.zip out2.vals) 7 = false := by
  refine ⟨?_, ?_, ?_⟩ <;> decide +kernel


open C07ex in
/-- the hypotheses of `C07_links_eq_spec` are met by a run with two bit-maps (one with a zero and a one bit), a
    class 33 value after 222000, a marker operator, a 235000 in between, and two links; the cancel time (8 items
    recorded) matters: without it the specification would attach the marker value to item 0 -/
example : decodeSubset tmpl2 bits2 = .ok (out2, []) ∧ Spec.WFlinks tmpl2 ∧
    Spec.markersOk (out2.descs.zip out2.vals) = true ∧
    Spec.cancelsL decPrimsU tmpl2 { bits := bits2, vals := [[]] } = [8] ∧
    out2.links = Spec.links (out2.descs.zip out2.vals) [8] ∧
    out2.links ≠ Spec.links (out2.descs.zip out2.vals) [] := by
  refine ⟨?_, ?_, ?_, ?_, ?_, ?_⟩ <;> decide +kernel

open C07ex in
/-- the template of Props/C07Subsets.lean (delayed replications in front of the operator) is `WFlinks` too -/
example : Spec.WFlinks tmpl ∧ Spec.markersOk (outA.descs.zip outA.vals) = true ∧ Spec.noCancelL tmpl = true := by
  refine ⟨?_, ?_, ?_⟩ <;> decide +kernel

open C07ex in
/-- NEGATION of the equality outside `markersOk`, class (a) — open finding F-C07-marker-class33: a marker whose
    target is a class 33 element, processed while quality information is pending, takes TWO zero bits in the
    code (and in the walk model, which mirrors it): the template is `WFlinks`, the decode succeeds, and the
    links differ from `Spec.links`. -/
theorem C07_links_ne_spec_marker_class33 :
    ∃ o, decodeSubset tmplF1 bitsF1 = .ok (o, []) ∧ Spec.WFlinks tmplF1 ∧
      Spec.markersOk (o.descs.zip o.vals) = false ∧
      o.links = [(10, 0), (11, 1), (11, 2)] ∧ Spec.links (o.descs.zip o.vals) [] = [(10, 0), (11, 1)] ∧
      o.links ≠ Spec.links (o.descs.zip o.vals) (Spec.cancelsL decPrimsU tmplF1 { bits := bitsF1, vals := [[]] }) := by
  refine ⟨{ descs := [.plain (e 1001 4), .plain q33, .plain (e 1002 4), .oper 222000, .oper 236000, .plain bit, .plain bit,
                      .plain bit, .oper 223000, .oper 237000, .marker 223255 (e 1001 4), .marker 223255 q33],
            vals := [.int 3, .int 1, .int 5, .int 0, .int 0, .int 0, .int 0, .int 0, .int 0, .int 0, .int 7, .int 2],
            links := [(10, 0), (11, 1), (11, 2)] }, ?_, ?_, ?_, ?_, ?_, ?_⟩ <;> decide +kernel

open C07ex in
/-- NEGATION, class (b) — open finding F11-C07-links-marker: with 204YYY in force over a marker operator the
    link is keyed by the position of the associated field `A001001` (5), not of the marker value (6). -/
theorem C07_links_ne_spec_assoc_marker :
    ∃ o, decodeSubset tmplF2 bitsF2 = .ok (o, []) ∧ Spec.WFlinks tmplF2 ∧
      Spec.markersOk (o.descs.zip o.vals) = false ∧
      o.links = [(5, 0)] ∧ Spec.links (o.descs.zip o.vals) [] = [(6, 0)] ∧
      o.links ≠ Spec.links (o.descs.zip o.vals) (Spec.cancelsL decPrimsU tmplF2 { bits := bitsF2, vals := [[]] }) := by
  refine ⟨{ descs := [.plain (e 1001 4), .oper 223000, .plain bit, .plain (e 31021 6), .assoc 223255 2, .assoc 1001 2,
                      .marker 223255 (e 1001 4)],
            vals := [.int 3, .int 0, .int 0, .int 1, .int 1, .int 2, .int 7],
            links := [(5, 0)] }, ?_, ?_, ?_, ?_, ?_, ?_⟩ <;> decide +kernel

end Bufr
