/-
  C18 — script preprocessing substitutes exactly the embedded queries.
  Property theorems only (helper lemmas: `Lemmas/Script.lean`).  Scripts of any length, any number
  of segments; model: `Lang/Script.lean`, specification: `Spec/ScriptSegments.lean`.
-/
import BufrModel.Lang.Script
import BufrModel.Spec.ScriptSegments
import BufrModel.Lemmas.Script
namespace Bufr.Script
open Spec

/-- For every well-formed segment list, the state machine returns the script with each embed
    replaced by the name of its trimmed expression and every other segment rendered unchanged,
    together with the table "distinct trimmed expressions in order of first occurrence ↦ PBK_0, PBK_1, ...". -/
theorem C18_preprocess_segments (segs : List Seg) (h : wfList segs = true) :
    preprocess (assemble segs) = expected segs := by
  have := go_segs segs h [] []
  simp only [bnd, List.length_nil, List.nil_append, extend_nil] at this
  have e : (⟨.idle, [], 0, table [], []⟩ : PS) = {} := by simp [table]
  rw [e] at this
  simp only [preprocess, expected, keys]
  rw [this.1, this.2.1]

/-- The segment grammar is complete: a script is the text of a well-formed segment list exactly when
    the scan ends outside literals and embeds (no unterminated quote, no unterminated `${`). -/
theorem C18_closed_iff_segments (s : List Char) :
    closedScript s = true ↔ ∃ segs, wfList segs = true ∧ assemble segs = s := by
  constructor
  · intro h
    exact segments_exist s (by simpa [closedScript, Closed] using h)
  · rintro ⟨segs, hw, rfl⟩
    have := (go_segs segs hw [] []).2.2
    have e : (bnd [] [] : PS) = {} := by simp [bnd, table]
    rw [e] at this
    simpa [closedScript, Closed] using this

/-- Hence the substitution theorem speaks about every closed script. -/
theorem C18_preprocess_closed (s : List Char) (h : closedScript s = true) :
    ∃ segs, wfList segs = true ∧ assemble segs = s ∧ preprocess s = expected segs := by
  obtain ⟨segs, hw, rfl⟩ := (C18_closed_iff_segments s).1 h
  exact ⟨segs, hw, rfl, C18_preprocess_segments segs hw⟩

/-- The code string, segment by segment: an embed becomes its variable name, every other segment —
    code, quoted literal (with any `${...}` or `#` inside), comment (with any `${...}` or quote inside)
    — is copied character by character. -/
theorem C18_code_by_segments (segs : List Seg) (h : wfList segs = true) :
    (preprocess (assemble segs)).1 =
      (segs.map fun s => match s with
        | .embed e => nameOf (keys segs) e
        | s => s.render).flatten := by
  rw [C18_preprocess_segments segs h]
  simp only [expected, assemble, List.map_map]
  congr 1
  apply List.map_congr_left
  intro s _
  cases s <;> simp [substSeg, Seg.render]

/-- A script without embeds is returned unchanged, with an empty table. -/
theorem C18_no_embed_identity (segs : List Seg) (h : wfList segs = true)
    (hne : ∀ e, Seg.embed e ∉ segs) : preprocess (assemble segs) = (assemble segs, []) := by
  rw [C18_preprocess_segments segs h]
  have h1 : ∀ ks, segs.map (substSeg ks) = segs := by
    intro ks
    rw [List.map_congr_left (g := id)]
    · simp
    · intro s hs
      cases s <;> simp [substSeg]
      exact hne _ hs
  have h2 : exprs segs = [] := by
    cases hx : exprs segs with
    | nil => rfl
    | cons t ts =>
      have : t ∈ exprs segs := by simp [hx]
      obtain ⟨e, he, _⟩ := (mem_exprs t segs).1 this
      exact absurd he (hne e)
  simp [expected, h1, keys, h2, firsts, table]

/-- Two embeds with the same trimmed expression are replaced by the same name, and the table maps
    that expression to this name. -/
theorem C18_same_expr_same_name (segs : List Seg) (h : wfList segs = true) (e₁ e₂ : List Char)
    (h₁ : Seg.embed e₁ ∈ segs) (heq : trimmed e₁ = trimmed e₂) :
    nameOf (keys segs) e₁ = nameOf (keys segs) e₂ ∧
    (preprocess (assemble segs)).2.lookup (trimmed e₂) = some (nameOf (keys segs) e₁) := by
  refine ⟨by simp [nameOf, heq], ?_⟩
  rw [C18_preprocess_segments segs h]
  have hm : trimmed e₁ ∈ keys segs := (mem_firsts _ _).2 ((mem_exprs _ _).2 ⟨e₁, h₁, rfl⟩)
  simp only [expected, lookup_table, ← heq, hm, if_true, nameOf]

/-- Embeds with different trimmed expressions are replaced by different names. -/
theorem C18_distinct_expr_distinct_name (segs : List Seg) (e₁ e₂ : List Char)
    (h₁ : Seg.embed e₁ ∈ segs) (h₂ : Seg.embed e₂ ∈ segs) (hne : trimmed e₁ ≠ trimmed e₂) :
    nameOf (keys segs) e₁ ≠ nameOf (keys segs) e₂ := by
  intro he
  simp only [nameOf] at he
  have m₁ : trimmed e₁ ∈ keys segs := (mem_firsts _ _).2 ((mem_exprs _ _).2 ⟨e₁, h₁, rfl⟩)
  have m₂ : trimmed e₂ ∈ keys segs := (mem_firsts _ _).2 ((mem_exprs _ _).2 ⟨e₂, h₂, rfl⟩)
  exact hne (idxOf_inj m₁ m₂ (varName_inj he))

/-- The keys of the returned table are the trimmed expressions of the script's embeds, each once. -/
theorem C18_table_keys (segs : List Seg) (h : wfList segs = true) :
    ((preprocess (assemble segs)).2.map (·.1)).Nodup ∧
    ∀ t, t ∈ (preprocess (assemble segs)).2.map (·.1) ↔ ∃ e, Seg.embed e ∈ segs ∧ trimmed e = t := by
  rw [C18_preprocess_segments segs h]
  have hk : (table (keys segs)).map (·.1) = keys segs := by
    simp [table, List.map_map, Function.comp_def]
  simp only [expected, hk]
  exact ⟨nodup_firsts _, fun t => by rw [keys, mem_firsts, mem_exprs]⟩

/-- The script needs only metadata exactly when every embedded expression starts with `%`. -/
theorem C18_metadata_only_iff (segs : List Seg) (h : wfList segs = true) :
    metadataOnly (preprocess (assemble segs)).2 = true ↔
      ∀ e, Seg.embed e ∈ segs → startsWithPct (trimmed e) = true := by
  have hk := (C18_table_keys segs h).2
  simp only [metadataOnly, List.all_eq_true]
  constructor
  · intro hall e he
    obtain ⟨kv, hkv, hkey⟩ := List.mem_map.1 ((hk (trimmed e)).2 ⟨e, he, rfl⟩)
    simpa [← hkey] using hall kv hkv
  · intro hall kv hkv
    obtain ⟨e, he, ht⟩ := (hk kv.1).1 (List.mem_map.2 ⟨kv, hkv, rfl⟩)
    simpa [← ht] using hall e he

/-- `metadata_only` agrees with the dispatch of `BufrMessageQuerent.query`: it holds exactly when
    every expression of the table is routed to the metadata querent. -/
theorem C18_metadata_only_iff_dispatch (segs : List Seg) (h : wfList segs = true) :
    metadataOnly (preprocess (assemble segs)).2 = true ↔
      ∀ kv ∈ (preprocess (assemble segs)).2, dispatch kv.1 = .ok .metadata := by
  have hk := (C18_table_keys segs h).2
  simp only [metadataOnly, List.all_eq_true]
  apply forall_congr'; intro kv; apply imp_congr_right; intro hkv
  obtain ⟨e, _, ht⟩ := (hk kv.1).1 (List.mem_map.2 ⟨kv, hkv, rfl⟩)
  rw [← ht, trimmed_eq_trim, dispatch, lstrip_trim]
  cases trim e with
  | nil => simp [startsWithPct]
  | cons c cs => by_cases hc : c = '%' <;> simp [startsWithPct, hc]

/-! ### nest levels -/

/-- level 1 is the concatenation of level 2 -/
theorem C18_level1_is_concat_level2 {α : Type} (q : QueryResult α) :
    (flattenValues 1 q : List α) = (flattenValues 2 q : List (List α)).flatten := by
  show reduceConcat (allValuesFlat q) = (allValuesFlat q).flatten
  exact reduceConcat_eq _

/-- level 0 is the first element of level 1, or `None` -/
theorem C18_level0_is_head_level1 {α : Type} (q : QueryResult α) :
    (flattenValues 0 q : Option α) = (flattenValues 1 q : List α).head? := by
  simp only [flattenValues]
  cases reduceConcat (allValuesFlat q) <;> rfl

/-- level 2 is the per-subset flattening (all scalars, left to right) of level 4 -/
theorem C18_level2_is_flatten_level4 {α : Type} (q : QueryResult α) :
    (flattenValues 2 q : List (List α)) = (flattenValues 4 q : List (List (Val α))).map leavesOfSubset := by
  simp only [flattenValues, allValuesFlat]
  apply List.map_congr_left
  intro vs _
  exact flattenList_eq_leaves vs

/-- any level other than 0, 1, 2 returns the values as they are -/
theorem C18_level_ge3_is_identity {α : Type} (n : Nat) (q : QueryResult α) :
    (flattenValues (n + 3) q : List (List (Val α))) = q := rfl

/-! ### pragma and argument -/

/-- precedence: argument over pragma over the default (1) -/
theorem C18_pragma_precedence (script : List Char) (arg : Option Nat) (r : Runner)
    (h : mkRunner script arg = .ok r) :
    ∃ pl, processPragma (preprocess script).1 = .ok pl ∧ r.level = arg.getD (pl.getD 1) ∧
      r.code = (preprocess script).1 ∧ r.subs = (preprocess script).2 ∧
      r.metadataOnly = metadataOnly (preprocess script).2 := by
  unfold mkRunner at h
  cases hp : processPragma (preprocess script).1 with
  | error e => simp [hp] at h
  | ok pl =>
    simp only [hp] at h
    cases h
    refine ⟨pl, rfl, ?_, rfl, rfl, rfl⟩
    cases arg <;> simp [defaultLevel]

/-- without a leading `#$` line the level is the argument, or 1 (and the constructor does not fail) -/
theorem C18_no_pragma_default (segs : List Seg) (h : wfList segs = true)
    (hp : "#$".toList.isPrefixOf (expected segs).1 = false) (arg : Option Nat) :
    ∃ r, mkRunner (assemble segs) arg = .ok r ∧ r.level = arg.getD 1 := by
  unfold mkRunner
  rw [C18_preprocess_segments segs h]
  simp only [processPragma_no_prefix _ hp]
  cases arg <;> simp [defaultLevel]

/-- A first line `#$<p>` sets the level that line states (`pragmaLine`: `line[3:]` split on `,` and `=`),
    whatever follows, as long as the next line is not a pragma line too; the argument still wins. -/
theorem C18_pragma_line_sets_level (p : List Char) (segs : List Seg) (n : Nat) (arg : Option Nat)
    (h : wfList (.comment ('$' :: p) true :: segs) = true)
    (hlb : ∀ c ∈ p, isLineBreak c = false)
    (hline : pragmaLine none ('#' :: '$' :: p) = .ok (some n))
    (hbody : "#$".toList.isPrefixOf (expected segs).1 = false) :
    ∃ r, mkRunner (assemble (.comment ('$' :: p) true :: segs)) arg = .ok r ∧ r.level = arg.getD n := by
  unfold mkRunner
  rw [C18_preprocess_segments _ h, expected_comment_cons]
  simp only [List.cons_append]
  have := processPragma_first_line p (expected segs).1 hlb (some n) hline hbody
  simp only [List.cons_append] at this
  simp only [this]
  cases arg <;> simp

example : wfList [.comment "$ data_values_nest_level = 4".toList true, .code "x = ".toList, .embed "001001".toList] = true ∧
    (∀ c ∈ " data_values_nest_level = 4".toList, isLineBreak c = false) ∧
    "#$".toList.isPrefixOf (expected [.code "x = ".toList, .embed "001001".toList]).1 = false := by decide

/-- the documented pragma lines for the four documented levels -/
example : pragmaLine none "#$ data_values_nest_level = 0".toList = .ok (some 0) := by decide
example : pragmaLine none "#$ data_values_nest_level = 1".toList = .ok (some 1) := by decide
example : pragmaLine none "#$ data_values_nest_level = 2".toList = .ok (some 2) := by decide
example : pragmaLine none "#$ data_values_nest_level = 4".toList = .ok (some 4) := by decide
example : pragmaLine none "#$ other = 1,  data_values_nest_level=4 ".toList = .ok (some 4) := by decide
/-- quirk of `line[3:]`: without a character after `#$` the key is cut and the line is ignored -/
example : pragmaLine none "#$data_values_nest_level = 4".toList = .ok none := by decide

/-- the names bound for the script are pairwise distinct: the variables never collide with each
    other or with `PBK_BUFR_MESSAGE` / `PBK_FILENAME` -/
theorem C18_bound_names_nodup (segs : List Seg) (h : wfList segs = true) :
    (boundNames (preprocess (assemble segs)).2).Nodup := by
  rw [C18_preprocess_segments segs h]
  exact boundNames_table_nodup _

/-! ### non-vacuity -/

/-- `${...}` inside quotes and after `#` stays, repeated expressions share a name -/
example : preprocess "a = ${ 001001 } + '${x}' # ${y}\nb = ${001001} * ${%length}".toList =
    ("a = PBK_0 + '${x}' # ${y}\nb = PBK_0 * PBK_1".toList,
     [("001001".toList, "PBK_0".toList), ("%length".toList, "PBK_1".toList)]) := by decide

example : wfList [.code "a = ".toList, .embed " 001001 ".toList, .code " + ".toList, .sq "${x}".toList,
    .code " ".toList, .comment " ${y}".toList true, .code "b$".toList, .embed "%length".toList] = true := by decide

example : closedScript "a = '${x}' # it's ${y}\nb = ${c}".toList = true := by decide
example : closedScript "a = 'b".toList = false := by decide
example : closedScript "a = ${b".toList = false := by decide

example : metadataOnly (preprocess "print(${%length}, ${ %edition })".toList).2 = true := by decide
example : metadataOnly (preprocess "print(${%length}, ${001001})".toList).2 = false := by decide

example : (flattenValues 4 [[Val.atom 1, .list [.atom 2, .list [.atom 3]]], [], [.atom 4]] : List (List (Val Nat))) =
    [[Val.atom 1, .list [.atom 2, .list [.atom 3]]], [], [.atom 4]] := rfl
example : (flattenValues 2 [[Val.atom 1, .list [.atom 2, .list [.atom 3]]], [], [.atom 4]] : List (List Nat)) =
    [[1, 2, 3], [], [4]] := rfl
example : (flattenValues 1 [[Val.atom 1, .list [.atom 2, .list [.atom 3]]], [], [.atom 4]] : List Nat) = [1, 2, 3, 4] := rfl
example : (flattenValues 0 [[Val.atom 1, .list [.atom 2]]] : Option Nat) = some 1 := rfl
example : (flattenValues 0 ([[], []] : QueryResult Nat) : Option Nat) = none := rfl

example : (mkRunner "#$ data_values_nest_level = 4\nx = ${001001}".toList none).map (·.level) = .ok 4 := by decide
example : (mkRunner "#$ data_values_nest_level = 4\nx = ${001001}".toList (some 2)).map (·.level) = .ok 2 := by decide
example : (mkRunner "x = ${001001}".toList none).map (·.level) = .ok 1 := by decide
example : (mkRunner "#$".toList none).map (·.level) = .error .other := by decide

end Bufr.Script
