/-
  C06 on the COMPILED-template path: `Decoder(compiled_template_cache_max=N)` / `Encoder(...)` run `process_statements` over
  the compiled program once per subset, each time after `switch_subset_context` (model: `decodeSubsetsC` / `encodeSubsetsC`,
  every subset from a fresh state — that the implementation does start afresh on this path too is what seeded/C06-4 breaks
  and what the compiled-path stages of harness/props/c06.py check).

  The theorems hold for ANY program (`Lemmas/CompilerFrameData.lean`: `exec` respects the frame / truncation / writer shapes
  of its primitives, by induction over statements) — no `scopeClosed` hypothesis — and, combined with C08, identify the
  compiled run with decoding each subset alone by the interpreted walk.
-/
import BufrModel.Lemmas.CompilerFrameData
import BufrModel.Props.C06
import BufrModel.Props.C08
import BufrModel.Props.C08Walk
namespace Bufr

private theorem decodeDataC_one (prog : List Stmt) (bits : Bits) (o : SubsetOut) (r : Bits)
    (h : decodeDataC prog false 1 bits = .ok ([o], r)) : decodeSubsetC prog bits = .ok (o, r) := by
  simp only [decodeDataC, Bool.false_eq_true, if_false, decodeSubsetsC] at h
  cases h1 : decodeSubsetC prog bits with
  | error e => rw [h1] at h; cases h
  | ok q =>
    obtain ⟨o', r'⟩ := q
    rw [h1] at h
    simp only at h
    cases h
    rfl

/-- COMPILED PATH, decoding together = decoding alone, for ANY program `prog` (whatever template it was compiled from, inside
    or outside the class `scopeClosed`, freshly compiled or taken from the cache): if every subset decodes alone — the
    compiled program executed on a one-subset data section — to its output, consuming exactly its bits, then the program
    executed subset by subset on the concatenation (followed by anything) gives exactly those outputs in that order and
    hands on what follows untouched. -/
theorem C06_compiled_together_eq_alone (prog : List Stmt) (ps : List (Bits × SubsetOut))
    (h : ∀ p ∈ ps, decodeDataC prog false 1 p.1 = .ok ([p.2], [])) (rest : Bits) :
    decodeDataC prog false ps.length ((ps.map (·.1)).flatten ++ rest) = .ok (ps.map (·.2), rest) := by
  simp only [decodeDataC, Bool.false_eq_true, if_false]
  exact decodeSubsetsC_of_alone prog ps (fun p hp => decodeDataC_one prog _ _ _ (h p hp)) rest

/-- ... and conversely: a successful compiled run over `n` subsets splits the input into `n` segments, and the output at each
    position is what the same program gives when executed ALONE on the segment of that position. -/
theorem C06_compiled_subset_independent_of_predecessors (prog : List Stmt) (n : Nat) (bits : Bits)
    (outs : List SubsetOut) (rest : Bits) (h : decodeDataC prog false n bits = .ok (outs, rest)) :
    ∃ ps : List (Bits × SubsetOut), ps.length = n ∧ ps.map (·.2) = outs ∧
      bits = (ps.map (·.1)).flatten ++ rest ∧ ∀ p ∈ ps, decodeDataC prog false 1 p.1 = .ok ([p.2], []) := by
  simp only [decodeDataC, Bool.false_eq_true, if_false] at h
  obtain ⟨ps, h1, h2, h3, h4⟩ := decodeSubsetsC_segments prog n bits outs rest h
  refine ⟨ps, h1, h2, h3, fun p hp => ?_⟩
  simp only [decodeDataC, Bool.false_eq_true, if_false, decodeSubsetsC, h4 p hp]

/-- Permuting the subsets permutes the result, on the compiled path. -/
theorem C06_compiled_permutation (prog : List Stmt) (ps qs : List (Bits × SubsetOut)) (hperm : qs.Perm ps)
    (h : ∀ p ∈ ps, decodeDataC prog false 1 p.1 = .ok ([p.2], [])) (rest : Bits) :
    decodeDataC prog false ps.length ((ps.map (·.1)).flatten ++ rest) = .ok (ps.map (·.2), rest) ∧
    decodeDataC prog false qs.length ((qs.map (·.1)).flatten ++ rest) = .ok (qs.map (·.2), rest) :=
  ⟨C06_compiled_together_eq_alone prog ps h rest,
   C06_compiled_together_eq_alone prog qs (fun q hq => h q (hperm.mem_iff.mp hq)) rest⟩

/-- Index form: any list of positions (permutation, selection, repetition). -/
theorem C06_compiled_permutation_index (prog : List Stmt) (bs : List Bits) (outs : List SubsetOut)
    (hlen : bs.length = outs.length)
    (h : ∀ i (h1 : i < bs.length) (h2 : i < outs.length), decodeDataC prog false 1 bs[i] = .ok ([outs[i]], []))
    (idx : List Nat) (hidx : ∀ i ∈ idx, i < bs.length) (rest : Bits) :
    decodeDataC prog false idx.length ((idx.map (bs[·]!)).flatten ++ rest) = .ok (idx.map (outs[·]!), rest) := by
  have hp := C06_compiled_together_eq_alone prog (idx.map fun i => (bs[i]!, outs[i]!)) (fun p hp => by
    obtain ⟨i, hi, rfl⟩ := List.mem_map.mp hp
    have h1 := hidx i hi
    have h2 : i < outs.length := by omega
    simp only [getElem!_pos bs i h1, getElem!_pos outs i h2]
    exact h i h1 h2) rest
  simpa [List.map_map, Function.comp_def] using hp

/-- COMPILED PATH, encoder: encoding together = encoding alone (reports and bits in a row), for ANY program. -/
theorem C06_compiled_encode_together_eq_alone (prog : List Stmt) (ts : List (List Val × SubsetOut × Bits))
    (h : ∀ x ∈ ts, encodeDataC prog false [x.1] = .ok ([x.2.1], x.2.2)) :
    encodeDataC prog false (ts.map (·.1)) = .ok (ts.map (·.2.1), (ts.map (·.2.2)).flatten) := by
  have h' : ∀ x ∈ ts.map (fun x => (x.1, x.2.1, x.2.2.reverse)),
      encodeSubsetC prog x.1 [] = .ok (x.2.1, x.2.2) := by
    intro y hy
    obtain ⟨x, hx, rfl⟩ := List.mem_map.mp hy
    have := h x hx
    obtain ⟨v, o', w⟩ := x
    simp only [encodeDataC, Bool.false_eq_true, if_false, encodeSubsetsC] at this
    simp only
    cases h1 : encodeSubsetC prog v [] with
    | error e => rw [h1] at this; cases this
    | ok q =>
      obtain ⟨o, b⟩ := q
      rw [h1] at this
      simp only at this
      cases this
      simp
  have := encodeSubsetsC_of_alone prog _ h' []
  simp only [List.map_map, Function.comp_def] at this
  simp only [encodeDataC, Bool.false_eq_true, if_false, this]
  simp only [List.append_nil, List.reverse_flatten, List.map_reverse, List.reverse_reverse, List.map_map,
    Function.comp_def]

/-- ... and conversely: whenever the subsets encode together with the compiled program, each encodes alone. -/
theorem C06_compiled_encode_together_implies_alone (prog : List Stmt) (vs : List (List Val)) (outs : List SubsetOut)
    (bits : Bits) (h : encodeDataC prog false vs = .ok (outs, bits)) :
    ∃ ts : List (List Val × SubsetOut × Bits), ts.map (·.1) = vs ∧ ts.map (·.2.1) = outs ∧
      bits = (ts.map (·.2.2)).flatten ∧ ∀ x ∈ ts, encodeDataC prog false [x.1] = .ok ([x.2.1], x.2.2) := by
  simp only [encodeDataC, Bool.false_eq_true, if_false] at h
  cases h1 : encodeSubsetsC prog vs [] with
  | error e => rw [h1] at h; cases h
  | ok q =>
    obtain ⟨o, b⟩ := q
    rw [h1] at h
    simp only at h
    cases h
    obtain ⟨ts, hvs, hos, hb, hf⟩ := encodeSubsetsC_alone_of prog vs [] _ _ h1
    refine ⟨ts.map (fun x => (x.1, x.2.1, x.2.2.reverse)), ?_, ?_, ?_, ?_⟩
    · simpa [List.map_map, Function.comp_def] using hvs
    · simpa [List.map_map, Function.comp_def] using hos
    · rw [hb]
      simp only [List.append_nil, List.reverse_flatten, List.map_reverse, List.reverse_reverse, List.map_map,
        Function.comp_def]
    · intro y hy
      obtain ⟨x, hx, rfl⟩ := List.mem_map.mp hy
      simp only [encodeDataC, Bool.false_eq_true, if_false, encodeSubsetsC, hf x hx]

/-- The combination with C08 (`C08_decodeDataC_eq`) and `C06_together_eq_alone_pairs`: for a `scopeClosed` template, executing
    its COMPILED program subset by subset equals decoding each subset alone with the TEMPLATE (interpreted walk). -/
theorem C06_compiled_together_eq_interpreted_alone (t : List Desc) (prog : List Stmt) (hs : scopeClosed t = true)
    (hc : compile t = .ok prog) (ps : List (Bits × SubsetOut))
    (h : ∀ p ∈ ps, decodeSubset t p.1 = .ok (p.2, [])) (rest : Bits) :
    decodeDataC prog false ps.length ((ps.map (·.1)).flatten ++ rest) = .ok (ps.map (·.2), rest) := by
  rw [C08_decodeDataC_eq t prog hs hc]
  simp only [decodeData, Bool.false_eq_true, if_false]
  exact C06_together_eq_alone_pairs t ps h rest

/-- the same for the encoder (`C08_encodeDataC_eq` + `C06_encode_together_eq_alone`) -/
theorem C06_compiled_encode_together_eq_interpreted_alone (t : List Desc) (prog : List Stmt) (hs : scopeClosed t = true)
    (hc : compile t = .ok prog) (ts : List (List Val × SubsetOut × Bits))
    (h : ∀ x ∈ ts, encodeData t false [x.1] = .ok ([x.2.1], x.2.2)) :
    encodeDataC prog false (ts.map (·.1)) = .ok (ts.map (·.2.1), (ts.map (·.2.2)).flatten) := by
  rw [C08_encodeDataC_eq t prog hs hc]
  exact C06_encode_together_eq_alone t ts h

/-- First use (compile) and later uses (cached program): whatever the history of requests and the cache limit, the programs
    handed out for two requests of the same template are equal (both are the compilation of the template,
    `C08_cache_transparent`) — so the theorems above, which hold for any program, speak about every use. -/
theorem C06_compiled_cache_use_independent {κ : Type} [DecidableEq κ] (tmplOf : κ → List Desc) (cacheMax : Nat)
    (hist : List κ) (i j : Nat) (hi : i < hist.length) (hj : j < hist.length) (hk : hist[i] = hist[j]) :
    (runCache (fun k => compile (tmplOf k)) cacheMax hist {}).1[i]? =
      (runCache (fun k => compile (tmplOf k)) cacheMax hist {}).1[j]? := by
  rw [C08_cache_transparent]
  simp only [List.getElem?_map, List.getElem?_eq_getElem hi, List.getElem?_eq_getElem hj, Option.map_some, hk]


/-! ### non-vacuity: the template of seeded/C06-4's demonstration

  `001001 101000 031001 012001 222000 101000 031001 031031 001031 001032 101000 031001 033007` — delayed replication in
  front of a bitmap.  Subset A has one temperature and the bitmap `0 0`, subset B three temperatures and the bitmap `0 1`:
  B's 033007 belongs to flat index 3 (the second temperature), not to index 1 (where A's first zero bit points).
  The template is NOT `scopeClosed` (bitmap by delayed replication), so only the any-program theorems apply. -/
namespace C06CEx
open C08Ex

def eBlk : Elem := { id := 1001, kind := .numeric, nbits := 7, scale := 0, ref := 0 }
def eT : Elem := { id := 12001, kind := .numeric, nbits := 12, scale := 1, ref := 0 }
def eFac : Elem := { id := 31001, kind := .numeric, nbits := 8, scale := 0, ref := 0 }
def eBit : Elem := { id := 31031, kind := .codeflag, nbits := 1, scale := 0, ref := 0 }
def eCen : Elem := { id := 1031, kind := .codeflag, nbits := 16, scale := 0, ref := 0 }
def eApp : Elem := { id := 1032, kind := .codeflag, nbits := 8, scale := 0, ref := 0 }
def eCon : Elem := { id := 33007, kind := .codeflag, nbits := 7, scale := 0, ref := 0 }

def tmpl : List Desc :=
  [ .elem eBlk, .delayedRep 101000 (.elem eFac) [ .elem eT ],
    .op 222000, .delayedRep 101000 (.elem eFac) [ .elem eBit ], .elem eCen, .elem eApp,
    .delayedRep 101000 (.elem eFac) [ .elem eCon ] ]

def bitsA : Bits :=
  toBits 7 94 ++ toBits 8 1 ++ toBits 12 2500 ++ toBits 8 2 ++ [false, false] ++ toBits 16 7 ++ toBits 8 1 ++
  toBits 8 2 ++ toBits 7 70 ++ toBits 7 80
def bitsB : Bits :=
  toBits 7 72 ++ toBits 8 3 ++ toBits 12 2600 ++ toBits 12 2610 ++ toBits 12 2620 ++ toBits 8 2 ++ [false, true] ++
  toBits 16 7 ++ toBits 8 1 ++ toBits 8 1 ++ toBits 7 55

def prog : List Stmt := progOf tmpl
/-- what the compiled program gives for one subset on its own -/
def outOf (b : Bits) : SubsetOut :=
  match decodeDataC prog false 1 b with
  | .ok ([o], _) => o
  | _ => default

example : scopeClosed tmpl = false ∧ isOk (compile tmpl) = true := by decide +kernel

theorem alone : ∀ p ∈ [(bitsA, outOf bitsA), (bitsB, outOf bitsB)], decodeDataC prog false 1 p.1 = .ok ([p.2], []) := by
  intro p hp
  simp only [List.mem_cons, List.not_mem_nil, or_false] at hp
  rcases hp with rfl | rfl <;> decide +kernel

/-- the links each subset gets alone: A's two attributes belong to indices 1 and 2, B's one attribute to index 3 -/
example : (outOf bitsA).links = [(10, 1), (11, 2)] ∧ (outOf bitsB).links = [(12, 3)] ∧
    (outOf bitsB).vals.length = 13 := by decide +kernel

/-- together (A then B, B then A), by the theorem -/
example : decodeDataC prog false 2 (bitsA ++ bitsB ++ [true]) = .ok ([outOf bitsA, outOf bitsB], [true]) ∧
    decodeDataC prog false 2 (bitsB ++ bitsA ++ [true]) = .ok ([outOf bitsB, outOf bitsA], [true]) := by
  have h := C06_compiled_permutation prog [(bitsA, outOf bitsA), (bitsB, outOf bitsB)] [(bitsB, outOf bitsB), (bitsA, outOf bitsA)]
    (List.Perm.swap _ _ _) alone [true]
  simpa using h

/-- the segments are recovered from the together-run -/
example : ∃ ps : List (Bits × SubsetOut), ps.length = 2 ∧ ps.map (·.2) = [outOf bitsA, outOf bitsB] :=
  let ⟨ps, h1, h2, _, _⟩ := C06_compiled_subset_independent_of_predecessors prog 2 (bitsA ++ bitsB) [outOf bitsA, outOf bitsB] []
    (by have := C06_compiled_together_eq_alone prog _ alone []; simpa using this)
  ⟨ps, h1, h2⟩

/-- encoder: the values of A and of B alone, and together -/
def encOf (v : List Val) : SubsetOut × Bits :=
  match encodeDataC prog false [v] with
  | .ok ([o], b) => (o, b)
  | _ => (default, [])

theorem encAlone : ∀ x ∈ [((outOf bitsA).vals, encOf (outOf bitsA).vals), ((outOf bitsB).vals, encOf (outOf bitsB).vals)],
    encodeDataC prog false [x.1] = .ok ([x.2.1], x.2.2) := by
  intro x hx
  simp only [List.mem_cons, List.not_mem_nil, or_false] at hx
  rcases hx with rfl | rfl <;> decide +kernel

example : (encOf (outOf bitsA).vals).2 = bitsA ∧ (encOf (outOf bitsB).vals).2 = bitsB := by decide +kernel

example : encodeDataC prog false [(outOf bitsA).vals, (outOf bitsB).vals] =
    .ok ([(encOf (outOf bitsA).vals).1, (encOf (outOf bitsB).vals).1],
         (encOf (outOf bitsA).vals).2 ++ (encOf (outOf bitsB).vals).2) := by
  have := C06_compiled_encode_together_eq_alone prog _ encAlone
  simpa using this

/-- a `scopeClosed` template (Props/C08Walk.lean: 201, nested replication, bitmap, marker operators): the compiled program on
    two copies of its subset = the interpreted walk on each copy alone -/
example : decodeDataC (progOf C08Ex.tmpl) false 2 (C08Ex.bits.take 90 ++ C08Ex.bits.take 90 ++ [true]) =
    .ok ([C08Ex.expected, C08Ex.expected], [true]) := by
  have := C06_compiled_together_eq_interpreted_alone C08Ex.tmpl _ (by decide +kernel)
    (compile_progOf C08Ex.tmpl (by decide +kernel)) [(C08Ex.bits.take 90, C08Ex.expected), (C08Ex.bits.take 90, C08Ex.expected)]
    (by intro p hp; simp only [List.mem_cons, List.not_mem_nil, or_false, or_self] at hp; subst hp; decide +kernel) [true]
  simpa using this

/-- cache: requests 1, 2, 1 with limit 1 (the second request evicts the first): first and third program are equal -/
example : (runCache (fun k : Nat => compile (if k = 1 then tmpl else C08Ex.tmpl)) 1 [1, 2, 1] {}).1[0]? =
    (runCache (fun k : Nat => compile (if k = 1 then tmpl else C08Ex.tmpl)) 1 [1, 2, 1] {}).1[2]? :=
  C06_compiled_cache_use_independent (fun k : Nat => if k = 1 then tmpl else C08Ex.tmpl) 1 [1, 2, 1] 0 2 (by simp) (by simp) rfl

end C06CEx

end Bufr
