/-
  C14 — tie to the Python source (regenerated on every check): the default table-group numbers of
  `pybufrkit/tables.py` used by the template model.
-/
import BufrModel.Basic.Template
import BufrModel.Gen.PyTables
namespace Bufr
open PyGen.tables

theorem C14_src_const_default_master_table_number : (defaultMasterTableNumber : Int) = DEFAULT_MASTER_TABLE_NUMBER := by decide
theorem C14_src_const_default_subcentre : (defaultSubcentre : Int) = DEFAULT_ORIGINATING_SUBCENTRE := by decide
theorem C14_src_const_default_master_table_version : (defaultMasterTableVersion : Int) = DEFAULT_MASTER_TABLE_VERSION := by decide

end Bufr
