/-
  C14 — tie to the Python source (regenerated on every check by `harness/py2lean.py`):
  the default table-group numbers of `pybufrkit/tables.py`, and the F / X / Y decomposition of a descriptor
  id in `pybufrkit/descriptors.py` (`Descriptor.F/X/Y`, `ReplicationDescriptor.n_items/n_members`,
  `FixedReplicationDescriptor.n_repeats`) on which the template builder of the model rests.

  Python's `//` and `%` are floor division and floor modulus on (unbounded) ints; the translator renders them
  as `Int.fdiv` / `Int.fmod`.  The model works with natural-number ids, so each theorem is stated for every
  `id : Nat` (every input of the model), cast to `Int`.
-/
import BufrModel.Basic.Template
import BufrModel.Gen.PyTables
import BufrModel.Gen.PyDescriptors
namespace Bufr
open PyGen.tables PyGen.descriptors

theorem fdiv_natCast (a b : Nat) : Int.fdiv (a : Int) (b : Int) = ((a / b : Nat) : Int) := by
  rw [Int.fdiv_eq_ediv_of_nonneg _ (Int.natCast_nonneg b)]; rfl
theorem fmod_natCast (a b : Nat) : Int.fmod (a : Int) (b : Int) = ((a % b : Nat) : Int) := by
  rw [Int.fmod_eq_emod_of_nonneg _ (Int.natCast_nonneg b)]; rfl

/-- `Descriptor.F`: `self.id // 100000` -/
theorem C14_src_descriptor_F (id : Nat) : Descriptor.F ⟨id⟩ = (fOf id : Int) := by
  simp only [Descriptor.F, fOf, Int.ofNat_eq_natCast, fdiv_natCast]

/-- `Descriptor.X`: `self.id // 1000 % 100` -/
theorem C14_src_descriptor_X (id : Nat) : Descriptor.X ⟨id⟩ = (xOf id : Int) := by
  simp only [Descriptor.X, xOf, Int.ofNat_eq_natCast, fdiv_natCast, fmod_natCast]

/-- `Descriptor.Y`: `self.id % 1000` -/
theorem C14_src_descriptor_Y (id : Nat) : Descriptor.Y ⟨id⟩ = (yOf id : Int) := by
  simp only [Descriptor.Y, yOf, Int.ofNat_eq_natCast, fmod_natCast]

/-- `ReplicationDescriptor.n_items` (how many descriptors a replication owns) is the model's `xOf` -/
theorem C14_src_replication_n_items (id : Nat) (ms : List Py.Obj) :
    ReplicationDescriptor.n_items ⟨id, ms⟩ = (xOf id : Int) := by
  simp only [ReplicationDescriptor.n_items, xOf, Int.ofNat_eq_natCast, fdiv_natCast, fmod_natCast]

/-- `ReplicationDescriptor.n_members` is the length of the member list -/
theorem C14_src_replication_n_members (id : Nat) (ms : List Py.Obj) :
    ReplicationDescriptor.n_members ⟨id, ms⟩ = (ms.length : Int) := rfl

/-- `FixedReplicationDescriptor.n_repeats` is the model's `yOf` -/
theorem C14_src_fixed_replication_n_repeats (id : Nat) :
    FixedReplicationDescriptor.n_repeats ⟨id⟩ = (yOf id : Int) := by
  simp only [FixedReplicationDescriptor.n_repeats, yOf, Int.ofNat_eq_natCast, fmod_natCast]

theorem C14_src_const_default_master_table_number : (defaultMasterTableNumber : Int) = DEFAULT_MASTER_TABLE_NUMBER := by decide
theorem C14_src_const_default_subcentre : (defaultSubcentre : Int) = DEFAULT_ORIGINATING_SUBCENTRE := by decide
theorem C14_src_const_default_master_table_version : (defaultMasterTableVersion : Int) = DEFAULT_MASTER_TABLE_VERSION := by decide

end Bufr
