/-
  C16 — the querent OBJECT: every answer is a function of (message, expression) alone.

  A `DataQuerent` (and the `BufrMessageQuerent` / `ScriptRunner` built on it) is long-lived: it answers queries on
  many messages, uncompressed and compressed, after expressions that were rejected by the parser at any point and
  after queries that failed at evaluation time.  Model of the object: `View/QueryObj.lean` over the parser object of
  `Lang/PathParserObj.lean`.

  * `C16_query_object_state_irrelevant`  whatever state the querent's parser is in, `query(msg, expr)` answers
     `queryStr msg expr` = `parse expr >>= query msg` — the function all theorems of `Props/C16.lean` are about;
  * `C16_query_history_independent`  the answers of ANY history of queries (message, expression) on one querent are
     the answers of a fresh querent to each — induction over the history, no bound on its length, its messages or
     its expressions; `C16_query_after_history` is the single-answer form;
  * negative witness (seeded change C16-3): with a parser whose `reset` forgets the slice buffer, the valid query
     `/001001` after the rejected `/101000/012001[1:` answers for subset 1 only.
  Tie to the code: `harness/c16hist.py` (histories on one `DataQuerent` / `BufrMessageQuerent` / `NodePathParser`
  against a fresh object and against the model).
-/
import BufrModel.View.QueryObj
import BufrModel.Props.C15History
import BufrModel.Props.C16
namespace Bufr
open Bufr.Query Bufr.PathLang

/-- THE OBJECT'S STATE IS IRRELEVANT: whatever the attributes of the querent's parser hold. -/
theorem C16_query_object_state_irrelevant (q : QObj) (m : QMsg) (expr : List Char) :
    (queryObj PObj.reset q m expr).1 = queryStr m expr := by
  unfold queryObj queryStr
  rw [← C15_parse_object_state_irrelevant q.parser expr]
  rcases parseObj PObj.reset q.parser expr with ⟨r, p'⟩
  cases r <;> rfl

/-- HISTORY INDEPENDENCE: the answers of the queries `hist`, put one after the other to ONE querent in any state,
    are the answers of `queryStr` to each of them — for every list of (message, expression) pairs: expressions
    accepted or rejected at any point, queries that succeed or fail at evaluation time, any mix of messages. -/
theorem C16_query_history_independent (hist : List (QMsg × List Char)) :
    ∀ q : QObj, queryAll PObj.reset q hist = hist.map (fun me => queryStr me.1 me.2) := by
  induction hist with
  | nil => intro q; rfl
  | cons me rest ih =>
    intro q
    obtain ⟨m, e⟩ := me
    simp only [queryAll, List.map_cons]
    rw [C16_query_object_state_irrelevant q m e, ih]

/-- the single-answer form: after ANY history on the querent, the next query answers `queryStr m expr` -/
theorem C16_query_after_history (q : QObj) (hist : List (QMsg × List Char)) (m : QMsg) (expr : List Char) :
    (queryObj PObj.reset (qAfterAll PObj.reset q hist) m expr).1 = queryStr m expr :=
  C16_query_object_state_irrelevant _ m expr

namespace C16ex

def subsetsOf (r : CM QResult) : Option (List Nat) := r.toOption.map QResult.subsetIndices

/-- a querent whose parser forgets the slice buffer (seeded change C16-3) on the two-subset example message: after
    the rejected `/101000/012001[1:` the valid `/001001` answers for subset 1 only; after `@[0:` for subset 0 only -/
example : (match msg with
    | .ok m => (queryAll PObj.resetKeepElems {} [(m, "/101000/012001[1:".toList), (m, "/001001".toList)]).map subsetsOf
    | .error _ => []) = [none, some [1]] := by decide +kernel
example : (match msg with
    | .ok m => (queryAll PObj.resetKeepElems {} [(m, "@[0:".toList), (m, "/001001".toList), (m, "/001001".toList)]).map subsetsOf
    | .error _ => []) = [none, some [0], some [0, 1]] := by decide +kernel
/-- the querent of the code on the same histories, and on a history that mixes the uncompressed and the compressed
    example message, a rejected expression and a query that fails at evaluation time (`/001001/012001`) -/
example : (match msg with
    | .ok m => (queryAll PObj.reset {} [(m, "/101000/012001[1:".toList), (m, "/001001".toList)]).map subsetsOf
    | .error _ => []) = [none, some [0, 1]] := by decide +kernel
example : (match msg, cmsg with
    | .ok m, .ok cm => (queryAll PObj.reset {} [(m, "@[1]/001001".toList), (cm, "/001001/012001".toList), (cm, "@[7:".toList),
        (cm, "/001001".toList), (m, "@[-1]>012001".toList)]).map subsetsOf
    | _, _ => []) = [some [1], none, none, some [0, 1], some [1]] := by decide +kernel

end C16ex
end Bufr
