/-
  C03 — every value the encoder writes: the sign-and-magnitude field of 203YYY and the width in force.

  * the new reference value of 203YYY (`write_int`: sign bit, then the magnitude on YYY − 1 bits) is
    accepted iff the magnitude fits YYY − 1 bits, refused otherwise (non-library error, nothing
    written) — uncompressed and compressed — and an accepted one reads back unchanged;
  * whatever operators modify the width of a numeric element (201YYY, 207YYY, both), the primitive
    that reads / writes the field is handed the EFFECTIVE width only: the all-ones test for "missing"
    is made with that width.  A packed integer that is all ones on the TABLE B width `nb` but not on
    the effective width `w > nb` (e.g. 4095 in the 14-bit field of 012001 under 201130) is an ordinary
    value: written as it is, read back as the number — uncompressed, and in a compressed column with
    differing (or missing) neighbours, whatever increment width the producer chose.
-/
import BufrModel.Props.C03
import BufrModel.Props.C05
import BufrModel.Lemmas.SimCompDec
namespace Bufr

/-! ### 1. the new reference value of 203YYY -/

/-- Uncompressed: the encoder accepts the new reference value `i` on `n` = YYY bits iff `n > 1` and
    `|i| < 2^(n−1)`; anything else is refused with the non-library error of the bit writer, never
    wrapped into the sign bit, never clipped.  (What an accepted value reads back as:
    `C03_element_roundtrip_newrefval`; "minus zero": `C03_newrefval_fixpoint`.) -/
theorem C03_newrefval_refused_iff (e : Elem) (n : Nat) (se : St) (i : Int)
    (hv : se.curVal = some (.int i)) :
    ((∃ se', encNewRefvalU e n se = .ok se') ↔ (1 < n ∧ i.natAbs < 2 ^ (n - 1))) ∧
    (¬ (1 < n ∧ i.natAbs < 2 ^ (n - 1)) → encNewRefvalU e n se = .error .other) := by
  rw [encNewRefvalU_eq e n se _ hv]
  simp only []
  refine ⟨⟨?_, ?_⟩, ?_⟩
  · rintro ⟨se', h⟩
    cases hf : fieldInt i n with
    | error e' => rw [hf] at h; cases h
    | ok f => obtain ⟨h1, h2, _⟩ := fieldInt_inv hf; exact ⟨h1, h2⟩
  · rintro ⟨h1, h2⟩
    rw [fieldInt_ok i n h1 h2]
    exact ⟨_, rfl⟩
  · intro hno
    cases hf : fieldInt i n with
    | error e' => have := fieldInt_error hf; subst this; rfl
    | ok f => obtain ⟨h1, h2, _⟩ := fieldInt_inv hf; exact absurd ⟨h1, h2⟩ hno

/-- non-vacuity on 203010: 511 and −511 are written, 512, 600, −600, 1023 and −1024 are refused -/
example :
    (encNewRefvalU default 10 { vals := [[.int 511]] }).toOption.map (·.bits.reverse) = some (false :: ones 9) ∧
    (encNewRefvalU default 10 { vals := [[.int (-511)]] }).toOption.map (·.bits.reverse) = some (true :: ones 9) ∧
    (encNewRefvalU default 10 { vals := [[.int 512]] }).toOption = none ∧
    (encNewRefvalU default 10 { vals := [[.int 600]] }).toOption = none ∧
    (encNewRefvalU default 10 { vals := [[.int (-600)]] }).toOption = none ∧
    (encNewRefvalU default 10 { vals := [[.int 1023]] }).toOption = none ∧
    (encNewRefvalU default 10 { vals := [[.int (-1024)]] }).toOption = none := by
  decide

/-- Compressed (`encNewRefvalC = encStepC (colNewRefval ..)`, `decNewRefvalC = decStepC (rdNewRefvalC ..)`):
    new reference values that differ between the subsets are refused; equal ones are accepted iff the
    magnitude fits `n − 1` bits; the field written is sign, magnitude and a zero increment width, and every
    subset reads the value back unchanged (and both sides record it for the element). -/
theorem C03_newrefval_compressed (id n : Nat) (i : Int) (vs : List Val) :
    colNewRefval id n false (.int i :: vs) = .error .other ∧
    (¬ (1 < n ∧ i.natAbs < 2 ^ (n - 1)) → colNewRefval id n true (.int i :: vs) = .error .other) ∧
    (1 < n → i.natAbs < 2 ^ (n - 1) →
      ∃ o, colNewRefval id n true (.int i :: vs) = .ok o ∧
        o.bits = (decide (i < 0) :: toBits (n - 1) i.natAbs) ++ toBits 6 0 ∧
        ∀ (m : Nat) (suf : Bits),
          rdNewRefvalC id n m (o.bits ++ suf) = .ok ((List.replicate m (.int i), updNewRefval id i), suf)) := by
  have h06 : fieldUInt 0 6 = .ok (toBits 6 0) := rfl
  refine ⟨rfl, ?_, ?_⟩
  · intro hno
    simp only [colNewRefval, Bool.not_true, Bool.false_eq_true, if_false, List.headD_cons]
    cases hf : fieldInt i n with
    | error e' => have := fieldInt_error hf; subst this; rfl
    | ok f => obtain ⟨h1, h2, _⟩ := fieldInt_inv hf; exact absurd ⟨h1, h2⟩ hno
  · intro h1 h2
    refine ⟨{ bits := (decide (i < 0) :: toBits (n - 1) i.natAbs) ++ toBits 6 0, canon := [], upd := updNewRefval id i }, ?_, rfl, ?_⟩
    · simp only [colNewRefval, Bool.not_true, Bool.false_eq_true, if_false, List.headD_cons,
        fieldInt_ok i n h1 h2, h06, bind, Except.bind, pure, Except.pure]
    · intro m suf
      have hs : (if decide (i < 0) = true then -((i.natAbs : Nat) : Int) else ((i.natAbs : Nat) : Int)) = i := by
        by_cases hneg : i < 0 <;> simp [hneg] <;> omega
      simp only [rdNewRefvalC, List.append_assoc, readInt_field n i.natAbs (decide (i < 0)) _ h1 h2,
        readUInt_toBits 6 0 suf (by decide) (by decide), bind, Except.bind, pure, Except.pure, hs]
      simp

/-- non-vacuity, two subsets on 203010: (−88, −88) is written and read back, (600, 600) and (3, 4) are refused -/
example :
    (colNewRefval 12101 10 true [.int (-88), .int (-88)]).toOption.map (·.bits)
      = some ((true :: toBits 9 88) ++ toBits 6 0) ∧
    (rdNewRefvalC 12101 10 2 ((true :: toBits 9 88) ++ toBits 6 0 ++ [true])).toOption.map (fun r => (r.1.1, r.2))
      = some ([.int (-88), .int (-88)], [true]) ∧
    (colNewRefval 12101 10 true [.int 600, .int 600]).toOption.map (·.bits) = none ∧
    (colNewRefval 12101 10 false [.int 3, .int 4]).toOption.map (·.bits) = none := by
  decide

/-! ### 2. the width in force -/

/-- Whatever the coder state (201YYY, 202YYY, 203YYY, 207YYY in any combination), the walk hands the
    numeric primitive of ANY coder (decoder or encoder, compressed or not) the EFFECTIVE width
    `nbits + (201 offset) + (207 increment)`, the effective scale and the effective reference — the
    Table B width alone is not an argument of `process_numeric`, so no test inside it can be made with it. -/
theorem C03_numeric_width_in_force (P : Prims) (e : Elem) (s : St)
    (hk : e.kind = .numeric) (ha : s.regs.assocStack = []) (hx : xOf e.id ≠ 33) (hq : s.regs.qa ≠ .processing) :
    elementDescriptor P (.plain e) e s =
      P.numeric (.plain e) ((e.nbits : Int) + s.regs.nbitsOffset + s.regs.nbitsInc)
        (e.scale + s.regs.scaleOffset + s.regs.scaleInc)
        ((lookupRef s.regs.newRefvals e.id).getD e.ref * s.regs.refFactor) s := by
  unfold elementDescriptor
  simp only [ha, ne_eq, not_true_eq_false, false_and, if_false, hx, hq, pure, Except.pure, bind, Except.bind, hk]
  cases lookupRef s.regs.newRefvals e.id <;> rfl

/-- non-vacuity: 012001 (12 bits, scale 1, reference 0) under 201130 and 207001 is read on 12 + 2 + 4 = 18 bits -/
example :
    let e : Elem := { id := 12001, kind := .numeric, nbits := 12, scale := 1, ref := 0 }
    let s : St := { regs := { nbitsOffset := 2, y207 := 1 }, bits := toBits 18 4095 ++ [true], vals := [[]] }
    (elementDescriptor decPrimsU (.plain e) e s).toOption.map (fun t => (t.bits, t.vals)) = some ([true], [[.num 4095 2]]) := by
  decide

/-- A packed integer below the all-ones pattern of the EFFECTIVE width `w` is an ordinary value of the
    uncompressed numeric field: the encoder writes it as it is on `w` bits, the decoder returns the number
    `(raw + ref)/10^scale`, not missing — for every width 1..64 the operators may have produced. -/
theorem C03_effective_width_uncompressed (dd : DDesc) (scale ref : Int) (w raw : Nat)
    (h0 : 0 < w) (h64 : w ≤ 64) (hr : raw < 2 ^ w - 1) :
    (∀ (se : St) (v : Val) (q : Int), se.curVal = some v → v ≠ .missing → quantise v scale = .ok q →
        q - ref = (raw : Int) →
        encNumericU dd (w : Int) scale ref se = .ok (se.afterWrite dd (toBits w raw))) ∧
    (∀ (sd : St) (suf : Bits), sd.bits = toBits w raw ++ suf →
        decNumericU dd (w : Int) scale ref sd = .ok (sd.afterRead dd suf (scaleVal ((raw : Int) + ref) scale))) ∧
    scaleVal ((raw : Int) + ref) scale ≠ .missing := by
  have hrw : raw < 2 ^ w := by omega
  refine ⟨fun se v q hv hm hq hqr => ?_, fun sd suf hb => ?_, scaleVal_ne_missing _ _⟩
  · have hlt : q - ref < (2 : Int) ^ w := by
      rw [hqr]; exact_mod_cast hrw
    have := C03_accepts_in_range dd scale ref w se v q hv hm hq h0 (by omega) hlt
    rw [hqr] at this
    simpa using this
  · have h := (C03_element_fixpoint dd scale ref w raw h0 h64 hrw).1 sd suf hb
    rw [C03_canon_value] at h
    have hne : ¬ (1 < w ∧ raw = 2 ^ w - 1) := by omega
    simpa [hne] using h

/-- The instance the seeded change C03-4 breaks: all ones on the Table B width `nb`, effective width `w > nb`. -/
theorem C03_table_width_all_ones_is_a_value (nb w : Nat) (h : nb < w) : 2 ^ nb - 1 < 2 ^ w - 1 := by
  have h1 : 2 ^ nb < 2 ^ w := Nat.pow_lt_pow_right (by decide) h
  have h2 := Nat.two_pow_pos nb
  omega

/-- non-vacuity: 012001 under 201130 (14 bits, scale 1): 409.5 K is packed as 4095 = 2^12 − 1 and reads back 409.5 -/
example :
    (encNumericU (.oper 0) 14 1 0 { vals := [[.num 4095 1]] }).toOption.map (·.bits.reverse) = some (toBits 14 4095) ∧
    (decNumericU (.oper 0) 14 1 0 { bits := toBits 14 4095, vals := [[]] }).toOption.map (·.vals) = some [[.num 4095 1]] ∧
    (decNumericU (.oper 0) 12 1 0 { bits := toBits 12 4095, vals := [[]] }).toOption.map (·.vals) = some [[.missing]] := by
  decide

/-- Compressed, reader: a column of `w`-bit entries below the all-ones pattern of the EFFECTIVE width
    (missing entries allowed), written with ANY legal increment width, is read by the compressed numeric
    reader as exactly those entries — `some x ↦ (x + ref)/10^scale`, `none ↦ missing`; in particular an
    entry `2^nb − 1` with `nb < w` is not turned into missing by a second test on the Table B width. -/
theorem C03_effective_width_compressed (dd : DDesc) (scale ref : Int) (w d : Nat) (raws : List (Option Nat))
    (s : St) (suf : Bits) (hw : 0 < w) (hw64 : w ≤ 64) (hr : Spec.InRange w raws)
    (hw1 : w = 1 → ∃ x, some x ∈ raws) (hd : Spec.LegalWidth d raws)
    (hn : s.vals.length = raws.length) (hb : s.bits = Spec.intColumnBitsWith d raws w ++ suf) :
    decNumericC dd (w : Int) scale ref s =
      .ok ({ (s.pushDesc dd) with bits := suf }.pushCol (raws.map fun v => numVal v scale ref)) := by
  simp only [decNumericC, natWidth_ofNat w hw, St.read, St.pushDesc, hb, hn,
    C05_every_legal_width w d raws suf hw hw64 hr hw1 hd, bind, Except.bind, pure, Except.pure]

/-- Compressed, writer: `_all_ones_as_missing` is applied with the width in force; entries that are not
    the all-ones pattern of THAT width are left alone (whatever they are on the Table B width). -/
theorem C03_all_ones_as_missing_effective_width (w : Nat) (raws : List (Option Int))
    (h : ∀ r ∈ raws, r ≠ some (((2 ^ w - 1 : Nat) : Int))) : allOnesAsMissing w raws = raws := by
  unfold allOnesAsMissing
  split
  · rfl
  · have : ∀ r ∈ raws, (if r = some (((2 ^ w - 1 : Nat) : Int)) then none else r) = id r := by
      intro r hr; simp [h r hr]
    rw [List.map_congr_left this, List.map_id]

/-- Compressed, writer then reader: a column with differing entries (or a missing one), all below the
    all-ones pattern of the effective width, as the compressed encoder writes it, reads back exactly. -/
theorem C03_compressed_column_reads_back (w : Nat) (raws : List (Option Nat)) (f suf : Bits)
    (hw : 0 < w) (hw64 : w ≤ 64) (hr : Spec.InRange w raws) (hne : ∃ x, some x ∈ raws)
    (henc : encIntColumnN false (raws.map (Option.map Int.ofNat)) w = .ok f) :
    readColumn w raws.length (f ++ suf) = .ok (raws, suf) := by
  obtain ⟨x, hx⟩ := hne
  have hkeep : allOnesAsMissing w (raws.map (Option.map Int.ofNat)) = raws.map (Option.map Int.ofNat) := by
    by_cases h1 : w ≤ 1
    · simp [allOnesAsMissing, h1]
    · apply C03_all_ones_as_missing_effective_width
      intro r hrm
      obtain ⟨r0, hr0, rfl⟩ := List.mem_map.mp hrm
      cases r0 with
      | none => simp
      | some y =>
        have := (hr y hr0).2 (by omega)
        simp only [Option.map_some, ne_eq, Option.some.injEq]
        intro hc
        have : (y : Int) = ((2 ^ w - 1 : Nat) : Int) := hc
        have : y = 2 ^ w - 1 := by exact_mod_cast this
        omega
  have hnall : (raws.map (Option.map Int.ofNat)).all (· == none) = false := by
    rw [Bool.eq_false_iff]
    intro hall
    rw [List.all_eq_true] at hall
    have := hall (some (Int.ofNat x)) (List.mem_map.mpr ⟨some x, hx, rfl⟩)
    simp at this
  have henc' : encIntColumn false (raws.map (Option.map Int.ofNat)) w = .ok f := by
    simp only [encIntColumnN, Bool.false_eq_true, if_false, hkeep, hnall] at henc
    exact henc
  have hlen : 0 < raws.length := List.length_pos_of_mem hx
  exact ct_intColumn_read w false raws f suf hw hw64 hr (fun _ => ⟨x, hx⟩) hlen (fun h => by cases h) (fun _ => ⟨x, hx⟩) henc'

/-- non-vacuity: 14-bit column (012001 under 201130) holding 4095 = 2^12 − 1, 4088 and a missing entry -/
example :
    (encIntColumnN false [some 4095, some 4088, none] 14).toOption.map
        (fun f => (readColumn 14 3 (f ++ [true])).toOption) = some (some ([some 4095, some 4088, none], [true])) ∧
    (decNumericC (.oper 0) 14 1 0
        { bits := Spec.intColumnBitsWith 4 [some 4095, some 4088, none] 14, vals := [[], [], []] }).toOption.map (·.vals)
      = some [[.num 4095 1], [.num 4088 1], [.missing]] := by
  decide

end Bufr
