/-
  C07, compressed data after the repair of finding F24b (the bit-map of compressed data has to be the same in every
  subset): the attribute links of EVERY subset are the links that its OWN recorded values designate.
  `C07_links_eq_spec_compressed` (Props/C07SpecMsg.lean) says that all subsets carry `Spec.links` of the items of subset 0
  — the subset the coder takes the bit-maps from; before the repair a later subset could hold other 031031 values, so
  its links were not the ones its own bit-map designates (`C07_compressed_foreign_bitmap_before_repair`: the old reader
  accepts the bit-maps `0 1 | 1 1`, the repaired one refuses them with the library error).
-/
import BufrModel.Props.C07SpecMsg
import BufrModel.Lemmas.CompBitmapOwn
namespace Bufr
open Bufr.C07 Bufr.Spec

/-- compressed messages: for EVERY subset the links are `Spec.links` of that subset's own items (labels and values) -/
theorem C07_links_eq_spec_compressed_own (t : List Desc) (n : Nat) (bits : Bits) (outs : List SubsetOut) (rest : Bits)
    (h : decodeData t true n bits = .ok (outs, rest)) (hwf : Spec.WFlinks t) :
    ∀ o ∈ outs, Spec.markersOk (o.descs.zip o.vals) = true →
      o.links = Spec.links (o.descs.zip o.vals)
        (Spec.cancelsL decPrimsC t { bits := bits, vals := List.replicate n [] }) := by
  simp only [decodeData, if_true] at h
  unfold decodeCompressed at h
  cases hw : walkList decPrimsC t { bits := bits, vals := List.replicate n [] } with
  | error e => rw [hw] at h; cases h
  | ok s =>
    rw [hw] at h
    cases h
    intro o ho hok
    unfold St.outs at ho
    obtain ⟨lj, hlj, rfl⟩ := List.mem_map.mp ho
    obtain ⟨j, hj, hjl⟩ := List.getElem_of_mem hlj
    have g := grows_walkList decPrimsC_rec t _ s (by cases n <;> rfl) hw
    have hlen : s.vals.length = n := by rw [g.2.2.1]; simp
    have hjn : j < n := by rw [← hlen]; exact hj
    have hV : decVAt j s = lj.reverse := by
      unfold decVAt
      rw [List.getElem?_eq_getElem hj, hjl]
    have hitems : items (decVAt j) s = s.descs.reverse.zip lj.reverse := by unfold items; rw [hV]
    simp only at hok
    rw [← hitems] at hok
    have hv0 : decVAt j ({ bits := bits, vals := List.replicate n [] } : St) = [] := by
      unfold decVAt
      simp [hjn]
    have := (walk_links_eq_spec (decPrimsC_recAt j) t hwf _ s rfl rfl rfl hv0 (by simpa using hjn) hw hok).1
    simp only
    rw [this, hitems]

/-- the primitive behind it: what the repaired compressed decoder uses as a bit-map is, in EVERY subset, the slice of the
    last `n` values of that subset -/
theorem C07_compressed_bitmap_is_every_subsets_own (n : Nat) (s : St) (l : List Val)
    (h : decPrimsC.lastValues n s = .ok l) : ∀ row ∈ s.vals, lastSlice n row = l :=
  (decLastValuesC_ok h).2

/-- before the repair (`decLastValues`: subset 0 only) the bit-maps `0 1 | 1 1` were accepted with subset 0's bits -/
theorem C07_compressed_foreign_bitmap_before_repair :
    decLastValues 2 { vals := [[.int 1, .int 0], [.int 1, .int 1]] } = .ok [.int 0, .int 1] ∧
    decPrimsC.lastValues 2 { vals := [[.int 1, .int 0], [.int 1, .int 1]] } = .error .lib :=
  ⟨decLastValues_accepts_differing.1, decLastValues_accepts_differing.2.1⟩

end Bufr
