/-
  C08 — template compilation preserves behaviour (decode, encode, save/load).

  Model: `Coder/Compiler.lean` (statements, `compile` = the recording walk with compile-time registers,
  `exec` = `process_statements`, cache, `dump`/`load`).  Lemmas: `Lemmas/CompilerCache.lean`,
  `Lemmas/CompilerFrame.lean`, `Lemmas/CompilerSim.lean`.

  Proved here for all inputs:
    * the cache is transparent and bounded (every history, every limit, limit 0 included);
    * the primitives of the decoder and of the encoder, uncompressed and compressed, satisfy the
      frame law the simulation rests on (they neither read nor write the operator registers);
    * the two local steps of the simulation between `exec ∘ compile` and the interpreted walk, for
      every register state: `process_element_descriptor` (with 201/202/203/204/207/208 in force and
      the QA-link machine) and `process_bitmap_definition` (with `define_bitmap`).

  NOT proved (kept as statements; checked by the correspondence + oracle of harness/props/c08.py):

      C08_exec_compile_eq_walk (full):
        ∀ P, Frame P → ∀ t prog, scopeClosed t = true → compile t = .ok prog →
          ∀ s, s.regs = {} → Sim c' (walkList P t s) (exec P prog s)
        i.e. the composition of the local steps over the prelude of `process_members` (221 / 203 / 206),
        the operators, sequences and the two replication loops (where `scopeClosed` is used).
        What is missing is that composition (`pre_sim` and the mutual induction over `Desc`); the local
        steps below, `walk1_eq` / `compile1_eq` (both sides as prelude + dispatch) and the sequencing
        lemmas `sim_bind` / `execList_append` are in place.

      C08_load_dump:  WFProg T c → load T (dump c) = .ok c.
-/
import BufrModel.Lemmas.CompilerCache
import BufrModel.Lemmas.CompilerSim
namespace Bufr
open Bufr.C08

/-- For every history of requests and every cache limit, what `getOrCompile` returns is the
    compilation of the requested key (the cache never serves a stale or foreign entry). -/
theorem C08_cache_transparent {κ α : Type} [DecidableEq κ] (compileK : κ → α) (cacheMax : Nat) (hist : List κ) :
    (runCache compileK cacheMax hist {}).1 = hist.map compileK :=
  (runCache_results compileK cacheMax hist {} (by intro p hp; cases hp)).1

example : (runCache (fun k : Nat => k * k) 1 [2, 3, 2, 2] {}).1 = [4, 9, 4, 4] := by decide

/-- The cache never holds more entries than its limit; with limit 0 it stays empty. -/
theorem C08_cache_bound {κ α : Type} [DecidableEq κ] (compileK : κ → α) (cacheMax : Nat) (hist : List κ) :
    (runCache compileK cacheMax hist {}).2.entries.length ≤ cacheMax :=
  runCache_bound compileK cacheMax hist {} (Nat.zero_le _)

example : (runCache (fun k : Nat => k) 2 [1, 2, 3, 4, 1] {}).2.entries.length = 2 := by decide

/-- every cached entry is the compilation of its key, after any history -/
theorem C08_cache_entries_sound {κ α : Type} [DecidableEq κ] (compileK : κ → α) (cacheMax : Nat) (hist : List κ) :
    ∀ p ∈ (runCache compileK cacheMax hist {}).2.entries, p.2 = compileK p.1 :=
  (runCache_results compileK cacheMax hist {} (by intro p hp; cases hp)).2

/-- The primitives of the decoder and of the encoder (uncompressed and compressed) neither read nor
    write the operator registers; `process_new_refval` alone records a value in `new_refvals`. -/
theorem C08_frame_prims : Frame decPrimsU ∧ Frame decPrimsC ∧ Frame encPrimsU ∧ Frame encPrimsC :=
  ⟨frame_decPrimsU, frame_decPrimsC, frame_encPrimsU, frame_encPrimsC⟩

/-- PARTIAL (stage reached: one element).  For every Table B element, every compile-time register
    state `c` and every pair of run-time states related to it (`RelR`: the walk's registers are described
    by `c`, the executing state shares the run-time registers), executing the statements recorded by the
    compiler equals `process_element_descriptor`: same bits, values, labels, links, or the same error,
    and the states stay related.  Covers 201/202/207/208 offsets, new reference values resolved at run
    time (203), associated fields (204) and the QA-information links (222000).
    Missing for the full statement: the composition over whole templates (see the file header). -/
theorem C08_exec_compile_eq_walk_partial (P : Prims) (hP : Frame P) (e : Elem) (c : CRegs) (s : St) (r' : Regs)
    (h : RelR c s.regs r') :
    Sim (cElement e c).2 (elementDescriptor P (.plain e) e s) (execList P (cElement e c).1 (withRegs s r')) :=
  element_sim P hP e s r' h

/-- non-vacuity: fresh registers on both sides are related to the fresh compiler state -/
example : RelR {} ({} : Regs) ({} : Regs) := by
  constructor <;> first | rfl | (intro id; simp [lookupRef]) | (intro _; rfl)

/-- PARTIAL (stage reached: one step of the bitmap-definition machine).  The statements recorded by
    `TemplateCompiler.process_bitmap_definition` (Reset / Increment / `define_bitmap`) reproduce
    `Coder.process_bitmap_definition` on related states, for every stage and descriptor id. -/
theorem C08_exec_compile_bitmapdef_partial (P : Prims) (hP : Frame P) (id : Nat) (c : CRegs) (s : St) (r' : Regs)
    (h : RelR c s.regs r') :
    Sim (cBitmapDefinition id c).2 (bitmapDefinition P id s) (execList P (cBitmapDefinition id c).1 (withRegs s r')) :=
  bitmapDef_sim P hP id s r' h

/-- the interpreted walk and the compiler have the same shape: prelude (221 / 203 / 206 / bitmap
    definition) followed by the dispatch on the descriptor type -/
theorem C08_walk_compile_shape (P : Prims) (chk : Nat) (d : Desc) (s0 : St) (c0 : CRegs) :
    walk1 P d s0 = wPre P d (wDispatch P d) s0 ∧ compile1 chk d c0 = cPre d (cDispatch chk d) c0 :=
  ⟨walk1_eq P d s0, compile1_eq chk d c0⟩

end Bufr
