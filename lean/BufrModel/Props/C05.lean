/-
  C05 — compression is transparent: the column codec.
  Property theorems only; helper lemmas are in `Lemmas/Column.lean`, the specification side
  (`Spec.intColumnBitsWith`, `Spec.LegalWidth`, `Spec.readColumnSpec`) in `Spec/Column.lean`.

  All statements are for EVERY field width `w` in `1..64` (64 is the limit of the decoder's table
  of missing values: `readUIntOrNone` raises IndexError above it, and so does the encoder's
  `missingPattern`), every number of subsets `n = raws.length` and every column; no bound on the
  entries other than representability in the field.
-/
import BufrModel.Coder.Encode
import BufrModel.Spec.Column
import BufrModel.Lemmas.Column
namespace Bufr

/-- The decoder reads EVERY legal increment width, not only the encoder's choice: a column written
    with any width `d` that `Spec.LegalWidth` admits (including `d = 1`, where increment 1 means
    missing, and `d = 0` for an all-equal or all-missing column) is read back exactly, and the
    reader stops exactly behind it.  For `w = 1` the field has no missing pattern, so an
    all-missing column does not exist (`hw1`); missing entries next to present ones are fine. -/
theorem C05_every_legal_width (w d : Nat) (raws : List (Option Nat)) (suf : Bits)
    (hw : 0 < w) (hw64 : w ≤ 64) (hr : Spec.InRange w raws)
    (hw1 : w = 1 → ∃ x, some x ∈ raws) (hd : Spec.LegalWidth d raws) :
    readColumn w raws.length (Spec.intColumnBitsWith d raws w ++ suf) = .ok (raws, suf) := by
  obtain ⟨hd63, hd0, hdpos⟩ := hd
  have h6 : d < 2 ^ 6 := by simp; omega
  cases hmin : Spec.colMin raws with
  | none =>
    have hall := (colMin_none_iff raws).mp hmin
    have hd0' : d = 0 := by
      rcases Nat.eq_zero_or_pos d with h | h
      · exact h
      · obtain ⟨lo, hlo, _⟩ := hdpos h; rw [hmin] at hlo; cases hlo
    have hw2 : 1 < w := by
      rcases Nat.lt_or_ge 1 w with h | h
      · exact h
      · obtain ⟨x, hx⟩ := hw1 (by omega); have := hall _ hx; cases this
    subst hd0'
    have hrep : List.replicate raws.length none = raws :=
      (List.eq_replicate_iff.mpr ⟨rfl, hall⟩).symm
    simp only [Spec.intColumnBitsWith, hmin, List.append_assoc, readColumn,
      readUIntOrNone_ones w _ hw2 hw64, readUInt_toBits 6 0 suf (by omega) h6, hrep]
    simp
  | some lo =>
    obtain ⟨hlomem, hlomin⟩ := colMin_some raws lo hmin
    obtain ⟨hlo1, hlo2⟩ := hr lo hlomem
    by_cases hz : d = 0
    · subst hz
      have hhead : ∀ r ∈ raws, r = some lo := by
        intro r hr'
        rw [hd0 rfl r hr', ← hd0 rfl _ hlomem]
      have hrep : List.replicate raws.length (some lo) = raws :=
        (List.eq_replicate_iff.mpr ⟨rfl, hhead⟩).symm
      simp only [Spec.intColumnBitsWith, hmin, List.append_assoc, readColumn, if_true,
        readUIntOrNone_value w lo _ hw hw64 hlo1 (fun h => by have := hlo2 h; omega),
        readUInt_toBits 6 0 _ (by omega) h6, List.nil_append, hrep]
    · obtain ⟨lo', hlo', hfit⟩ := hdpos (by omega)
      rw [hmin] at hlo'; cases hlo'
      simp only [Spec.intColumnBitsWith, hmin, List.append_assoc, readColumn, hz, if_false,
        readUIntOrNone_value w lo _ hw hw64 hlo1 (fun h => by have := hlo2 h; omega),
        readUInt_toBits 6 d _ (by omega) h6]
      exact readDiffs_incr d lo raws suf (by omega) (by omega)
        (fun x hx => ⟨hlomin x hx, hfit x hx⟩)

/-- non-vacuity: equal, distinct and missing entries, widths 2, 3 and 5 for the same column; the
    one-bit width for a column of one value and missing entries -/
example : Spec.LegalWidth 2 [some 5, none, some 5, some 7] ∧ Spec.LegalWidth 3 [some 5, none, some 5, some 7]
    ∧ Spec.LegalWidth 1 [some 5, none, some 5] ∧ Spec.LegalWidth 0 [some 5, some 5]
    ∧ Spec.LegalWidth 0 [none, none] ∧ ¬ Spec.LegalWidth 1 [some 5, none, some 6] := by
  simp [Spec.LegalWidth, Spec.colMin]
example : readColumn 4 3 (Spec.intColumnBitsWith 1 [some 5, none, some 5] 4 ++ [true]) =
    .ok ([some 5, none, some 5], [true]) := by decide

/-- Every column of a field of at most 62 bits has a spread the encoder can write. -/
theorem C05_span_ok_of_width (w : Nat) (raws : List (Option Nat)) (hw : w ≤ 62)
    (hr : Spec.InRange w raws) : Spec.SpanOK raws := by
  intro x y _ hy
  obtain ⟨h1, _⟩ := hr y hy
  have : 2 ^ w ≤ 2 ^ 62 := Nat.pow_le_pow_right (by omega) hw
  omega

/-- What the encoder writes is the specification column for the width it picks, and that width is
    legal: 0 when it saw all entries equal (`allEqual`, decided on the user's values, has to imply
    that the raw entries are equal), otherwise `nbitsForUInt (max − min + 1) ≥ 2` — also when the
    raw entries happen to be equal although the user's values were not.
    `hne`: the general path needs a present entry (the encoder only takes it when the user's values
    differ, so not all are missing). -/
theorem C05_encoder_width_is_legal (w : Nat) (allEqual : Bool) (raws : List (Option Nat))
    (hw : 0 < w) (hw64 : w ≤ 64) (hr : Spec.InRange w raws) (hw1 : w = 1 → ∃ x, some x ∈ raws)
    (hn : 0 < raws.length)
    (heq : allEqual = true → ∀ r ∈ raws, r = raws.headD none)
    (hne : allEqual = false → ∃ x, some x ∈ raws) (hspan : Spec.SpanOK raws) :
    encIntColumn allEqual (raws.map (Option.map Int.ofNat)) w =
        .ok (Spec.intColumnBitsWith (encoderWidth allEqual raws) raws w) ∧
      Spec.LegalWidth (encoderWidth allEqual raws) raws ∧
      (encoderWidth allEqual raws = 0 ↔ allEqual = true) ∧
      (allEqual = false → 2 ≤ encoderWidth allEqual raws) := by
  cases allEqual with
  | true =>
    have hall := heq rfl
    refine ⟨?_, ⟨by simp [encoderWidth], fun _ => hall, fun h => by simp [encoderWidth] at h⟩,
      by simp [encoderWidth], by simp⟩
    have h06 : fieldUInt 0 6 = .ok (toBits 6 0) := rfl
    simp only [encIntColumn, if_true, headD_map_ofNat, encoderWidth]
    cases hh : raws.headD none with
    | none =>
      have hnone : ∀ r ∈ raws, r = none := fun r hr' => by rw [hall r hr', hh]
      have hmin := (colMin_none_iff raws).mpr hnone
      have hw2 : 1 < w := by
        rcases Nat.lt_or_ge 1 w with h | h
        · exact h
        · obtain ⟨x, hx⟩ := hw1 (by omega); have := hnone _ hx; cases this
      simp only [Option.map_none, catBits, fieldUInt_missing w hw hw64, h06,
        Spec.intColumnBitsWith, hmin, List.append_nil]
    | some v =>
      have hsome : ∀ r ∈ raws, r = some v := fun r hr' => by rw [hall r hr', hh]
      have hmin : Spec.colMin raws = some v := by
        cases hc : Spec.colMin raws with
        | none =>
          have := (colMin_none_iff raws).mp hc
          cases raws with
          | nil => simp at hn
          | cons r rs =>
            have h1 := this r (by simp); have h2 := hsome r (by simp); rw [h1] at h2; cases h2
        | some lo =>
          have := hsome _ (colMin_some raws lo hc).1
          rw [this]
      obtain ⟨hv, _⟩ := hr v (colMin_some raws v hmin).1
      have := fieldUInt_nat v w hw hv
      simp only [Option.map_some, Int.ofNat_eq_natCast, catBits, this, h06,
        Spec.intColumnBitsWith, hmin, if_true, List.append_nil]
  | false =>
    obtain ⟨x0, hx0⟩ := hne rfl
    cases hmin : Spec.colMin raws with
    | none => have := (colMin_none_iff raws).mp hmin _ hx0; cases this
    | some lo =>
      cases hmax : Spec.colMax raws with
      | none => have := (colMax_none_iff raws).mp hmax _ hx0; cases this
      | some hi =>
        obtain ⟨hlomem, hlomin⟩ := colMin_some raws lo hmin
        obtain ⟨himem, himax⟩ := colMax_some raws hi hmax
        have hsp := hspan lo hi hlomem himem
        have hnd : nbitsForUInt (hi - lo + 1) ≤ 63 := nbitsForUInt_least _ 63 (by omega)
        have hfit := nbitsForUInt_fits (hi - lo + 1)
        have h2 := nbitsForUInt_ge_two (hi - lo + 1) (by omega)
        have hw' : encoderWidth false raws = nbitsForUInt (hi - lo + 1) := by
          simp [encoderWidth, hmin, hmax]
        rw [hw']
        refine ⟨?_, ⟨hnd, fun h => by omega, fun _ => ⟨lo, hmin, fun x hx => ?_⟩⟩,
          ⟨fun h => by omega, fun h => by cases h⟩, fun _ => h2⟩
        · simp only [encIntColumn, Bool.false_eq_true, if_false]
          exact intColumnBits_eq w raws lo hi hmin hmax hw (hr lo hlomem).1 hnd
        · have := himax x hx; omega

/-- The compressed form of a column written by the encoder is read back by the decoder as exactly
    that column, whatever follows, for every field width 1..64 and any mix of equal, distinct and
    missing entries.  `Spec.InRange`: present entries are below the field's all-ones pattern (for
    `w = 1` there is none: 0 and 1 are both values, and `hw1` excludes the all-missing column, which
    a 1-bit field cannot express; missing entries NEXT to present ones do round-trip for `w = 1`).
    `hspan` is implied by `w ≤ 62` (`C05_span_ok_of_width`); for `w = 63, 64` a spread of
    `2^63 − 2` or more makes the encoder fail (see the counterexample below). -/
theorem C05_column_roundtrip (w : Nat) (allEqual : Bool) (raws : List (Option Nat)) (suf : Bits)
    (hw : 0 < w) (hw64 : w ≤ 64) (hr : Spec.InRange w raws) (hw1 : w = 1 → ∃ x, some x ∈ raws)
    (hn : 0 < raws.length)
    (heq : allEqual = true → ∀ r ∈ raws, r = raws.headD none)
    (hne : allEqual = false → ∃ x, some x ∈ raws) (hspan : Spec.SpanOK raws) :
    ∃ bits, encIntColumn allEqual (raws.map (Option.map Int.ofNat)) w = .ok bits ∧
      readColumn w raws.length (bits ++ suf) = .ok (raws, suf) := by
  obtain ⟨henc, hleg, _, _⟩ := C05_encoder_width_is_legal w allEqual raws hw hw64 hr hw1 hn heq hne hspan
  exact ⟨_, henc, C05_every_legal_width w _ raws suf hw hw64 hr hw1 hleg⟩

/-- non-vacuity: equal, distinct and missing entries in one column; an all-equal column whose
    flag is off (quantisation made the entries equal): width 2, not 0 -/
example : encIntColumn false ([some 5, none, some 5, some 9].map (Option.map Int.ofNat)) 4 =
      .ok (Spec.intColumnBitsWith 3 [some 5, none, some 5, some 9] 4) ∧
    readColumn 4 4 (Spec.intColumnBitsWith 3 [some 5, none, some 5, some 9] 4 ++ [false]) =
      .ok ([some 5, none, some 5, some 9], [false]) ∧
    encoderWidth false [some 5, some 5] = 2 ∧ encoderWidth true [some 5, some 5] = 0 := by decide

/-- why `hw1` and `hne` are there: a 1-bit field cannot express an all-missing column (the all-ones
    minimum of width 1 is read as the value 1), and the general path refuses an all-missing column
    (the encoder never takes it for one: all-missing user values are all equal). -/
example : (∃ bits, encIntColumn true ([none, none].map (Option.map Int.ofNat)) 1 = .ok bits ∧
      readColumn 1 2 bits = .ok ([some 1, some 1], [])) ∧
    encIntColumn false ([none, none].map (Option.map Int.ofNat)) 4 = .error .other ∧
    -- a missing entry NEXT to a present one does round-trip in a 1-bit column
    (∃ bits, encIntColumn false ([some 1, none].map (Option.map Int.ofNat)) 1 = .ok bits ∧
      readColumn 1 2 bits = .ok ([some 1, none], [])) :=
  ⟨⟨_, rfl, by decide⟩, by decide, ⟨_, rfl, by decide⟩⟩

/-- The one column shape the encoder cannot write: a 63-bit (or 64-bit) field whose present entries
    span `2^63 − 2` or more needs an increment width of 64, which does not fit the 6-bit count
    (`write_uint(64, 6)` raises).  Decoding the spec column of width 63 works. -/
example : encIntColumn false ([some 0, some (2 ^ 63 - 2)].map (Option.map Int.ofNat)) 63 = .error .other := by
  decide +kernel

/-- The decoder's column reader and the independent reader written from regulation 94.6.3 note (2)
    (`Spec.readColumnSpec`, position arithmetic instead of a consuming reader) agree on EVERY bit
    string, every width and every subset count: same column, same unread rest, same error family.
    In particular the decoder's special rule "a one-bit increment of 1 is missing" is exactly the
    regulation's uniform "all ones is missing". -/
theorem C05_spec_reader_agrees (w n : Nat) (bs : Bits) :
    readColumn w n bs = Spec.readColumnSpec w n bs := by
  by_cases hw0 : w = 0
  · simp [readColumn, readUIntOrNone, readUInt_eq, Spec.readColumnSpec, hw0]
  by_cases hl : bs.length < w
  · simp [readColumn, readUIntOrNone, readUInt_eq, Spec.readColumnSpec, hw0, hl]
  by_cases h64 : 64 < w
  · simp [readColumn, readUIntOrNone, readUInt_eq, Spec.readColumnSpec, hw0, hl, h64]
  by_cases hl6 : bs.length < w + 6
  · have : bs.length - w < 6 := by omega
    by_cases hm : 1 < w ∧ ofBits (bs.take w) = 2 ^ w - 1 <;>
      simp [readColumn, readUIntOrNone, readUInt_eq, Spec.readColumnSpec, hw0, hl, h64, hl6, hm, this]
  have hl6' : ¬ (bs.length - w < 6) := by omega
  have hlen : (bs.take w).length = w := by rw [List.length_take]; omega
  have hmax := ofBits_eq_max_iff (bs.take w)
  rw [hlen] at hmax
  have hnd : ofBits ((bs.drop w).take 6) < 64 := by
    have h := ofBits_lt ((bs.drop w).take 6)
    have : ((bs.drop w).take 6).length = 6 := by simp only [List.length_take, List.length_drop]; omega
    rw [this] at h; exact h
  have hB : readUInt 6 (bs.drop w) = .ok (ofBits ((bs.drop w).take 6), bs.drop (w + 6)) := by
    simp only [readUInt_eq, List.length_drop, hl6', List.drop_drop, if_false]
    simp
  have hA : readUIntOrNone w bs = .ok ((if 1 < w ∧ (bs.take w).all id = true then none
      else some (ofBits (bs.take w))), bs.drop w) := by
    simp only [readUIntOrNone, readUInt_eq, hw0, hl, h64, if_false, hmax]
    by_cases hm : 1 < w ∧ (bs.take w).all id = true
    · rw [if_pos hm, if_pos hm]
    · rw [if_neg hm, if_neg hm]
  simp only [Spec.readColumnSpec, hw0, hl, h64, hl6, if_false]
  by_cases hm : 1 < w ∧ (bs.take w).all id = true
  · simp only [readColumn, hA, hB, hm, and_self, if_true]
  · simp only [readColumn, hA, hB, hm, if_false]
    by_cases hz : ofBits ((bs.drop w).take 6) = 0
    · simp only [hz, if_true]
    · have hd : 0 < ofBits ((bs.drop w).take 6) := by omega
      simp only [hz, if_false, readDiffs_eq _ _ n _ hd (by omega), List.length_drop, List.drop_drop]
      have hc : (bs.length - (w + 6) < n * ofBits ((bs.drop w).take 6)) ↔
          (bs.length < w + 6 + n * ofBits ((bs.drop w).take 6)) := by omega
      simp only [hc]
      have he : ∀ i, incrVal (ofBits ((bs.drop w).take 6)) (ofBits (bs.take w)) (bs.drop (w + 6)) i =
          Spec.entryAt w (ofBits ((bs.drop w).take 6)) (ofBits (bs.take w)) bs i := by
        intro i; simp only [incrVal, Spec.entryAt, Spec.incrAt, List.drop_drop]; rfl
      rw [List.map_congr_left (fun i _ => he i)]

/-- non-vacuity (both succeed / both fail with the same family) -/
example : Spec.readColumnSpec 4 3 (Spec.intColumnBitsWith 1 [some 5, none, some 5] 4 ++ [true]) =
      .ok ([some 5, none, some 5], [true]) ∧
    Spec.readColumnSpec 4 3 (Spec.intColumnBitsWith 3 [some 5, none, some 5] 4).dropLast = .error .bitRead ∧
    Spec.readColumnSpec 4 3 (ones 4 ++ toBits 6 2) = .error .other := by decide

/-- Code/flag columns: the decoder checks every rebuilt entry against the FIELD's missing pattern
    once more (`codeflagVal`); on a column of representable entries that re-check never fires, so a
    code/flag column is delivered exactly like a numeric one (present -> the integer, missing ->
    missing). -/
theorem C05_codeflag_recheck_inert (w : Nat) (raws : List (Option Nat)) (hr : Spec.InRange w raws) :
    raws.map (codeflagVal w) = raws.map uintVal := by
  apply List.map_congr_left
  intro r hr'
  cases r with
  | none => rfl
  | some x =>
    have h := (hr x hr').2
    have : ¬ (1 < w ∧ x = 2 ^ w - 1) := fun ⟨a, b⟩ => by have := h a; omega
    simp only [codeflagVal, this, if_false, uintVal]

/-- Character columns: what the encoder writes for a column of `nbytes`-byte strings — any mix of
    equal, different and missing (`none`) entries, strings of any length (truncated or blank-padded
    by `padBytes`) — is read back by the decoder as the canonical strings (`Spec.strCanon`: padded
    string, `nbytes` × 0xFF for missing) and the reader stops exactly behind the column.
    The increment length has to fit the 6-bit count when increments are written (`h63`).
    An all-equal column of NUL bytes comes back as the NULs (the decoder blanks a NUL base only
    when increments follow — see the example). -/
theorem C05_string_column_roundtrip (nbytes : Nat) (allEqual : Bool)
    (strs : List (Option (List UInt8))) (suf : Bits)
    (h63 : allEqual = false → nbytes ≤ 63)
    (heq : allEqual = true → ∀ s ∈ strs, s = strs.headD none) :
    ∃ bits, encStringColumn allEqual strs nbytes = .ok bits ∧
      readStringColumn nbytes strs.length (bits ++ suf) =
        .ok (strs.map (Spec.strCanon nbytes), suf) := by
  have h06 : fieldUInt 0 6 = .ok (toBits 6 0) := rfl
  cases allEqual with
  | true =>
    have hall := heq rfl
    have hrep : strs.map (Spec.strCanon nbytes) =
        List.replicate strs.length (Spec.strCanon nbytes (strs.headD none)) := by
      rw [List.eq_replicate_iff]
      refine ⟨by simp, fun x hx => ?_⟩
      obtain ⟨s, hs, rfl⟩ := List.mem_map.mp hx
      rw [hall s hs]
    refine ⟨bytesToBits (Spec.strCanon nbytes (strs.headD none)) ++ toBits 6 0, ?_, ?_⟩
    · simp only [encStringColumn, if_true, catBits, h06, List.append_nil]
      cases strs.headD none with
      | none => simp only [fieldBytes_none]
      | some b => simp only [fieldBytes_some]
    · simp only [readStringColumn, List.append_assoc,
        readBytes_of_length nbytes _ _ (strCanon_length nbytes _),
        readUInt_toBits 6 0 suf (by omega) (by omega), if_true, hrep]
  | false =>
    have hk := h63 rfl
    have h6 : nbytes < 2 ^ 6 := by simp; omega
    have hz : bytesToBits (padBytes (List.replicate nbytes (0 : UInt8)) nbytes) =
        bytesToBits (List.replicate nbytes 0) := by rw [padBytes_of_length _ _ (by simp)]
    have hbase : fieldBytes (List.replicate nbytes 0) nbytes =
        .ok (bytesToBits (List.replicate nbytes 0)) := by
      simp only [fieldBytes, writeBytes, List.nil_append, hz]
    by_cases hn0 : nbytes = 0
    · subst hn0
      refine ⟨toBits 6 0, ?_, ?_⟩
      · simp only [encStringColumn, Bool.false_eq_true, if_false, if_true, catBits, hbase]
        rfl
      · have hrep : strs.map (Spec.strCanon 0) = List.replicate strs.length [] := by
          rw [List.eq_replicate_iff]
          refine ⟨by simp, fun x hx => ?_⟩
          obtain ⟨s, _, rfl⟩ := List.mem_map.mp hx
          exact List.eq_nil_of_length_eq_zero (strCanon_length 0 s)
        have hrb : readBytes 0 (toBits 6 0 ++ suf) = .ok ([], toBits 6 0 ++ suf) := rfl
        simp only [readStringColumn, hrb, readUInt_toBits 6 0 suf (by omega) (by omega), if_true, hrep]
    · refine ⟨bytesToBits (List.replicate nbytes 0) ++ toBits 6 nbytes ++
          strs.flatMap (fun s => bytesToBits (Spec.strCanon nbytes s)), ?_, ?_⟩
      · simp only [encStringColumn, Bool.false_eq_true, if_false, hn0, catBits, hbase,
          fieldUInt_nat nbytes 6 (by omega) h6]
        rw [catBits_map_ok strs _ (fun s => bytesToBits (Spec.strCanon nbytes s))
          (fun s _ => by
            cases s with
            | none => exact fieldBytes_none nbytes
            | some b => exact fieldBytes_some nbytes b)]
        simp only [List.append_assoc]
      · have hall0 : (List.replicate nbytes (0 : UInt8)).all (· == 0) = true := by simp
        have hfm : strs.flatMap (fun s => bytesToBits (Spec.strCanon nbytes s)) =
            (strs.map (Spec.strCanon nbytes)).flatMap bytesToBits := by
          rw [List.flatMap_map]
        have hrs := readStrings_enc nbytes [] (strs.map (Spec.strCanon nbytes)) suf
          (fun s hs => by obtain ⟨t, _, rfl⟩ := List.mem_map.mp hs; exact strCanon_length nbytes t)
        simp only [List.length_map, List.nil_append, List.map_id'] at hrs
        simp only [readStringColumn, List.append_assoc,
          readBytes_of_length nbytes _ _ (List.length_replicate ..),
          readUInt_toBits 6 nbytes _ (by omega) h6, hn0, if_false, hall0, if_true, hfm, hrs]

/-- non-vacuity: equal, different, short, long and missing entries; an all-equal column of NUL
    bytes is returned as the NULs -/
example : ∃ bits, encStringColumn false [some [65, 66], none, some [65], some [65, 66, 67]] 2 = .ok bits ∧
    readStringColumn 2 4 (bits ++ [true]) = .ok ([[65, 66], [255, 255], [65, 32], [65, 66]], [true]) :=
  ⟨_, rfl, by decide⟩
example : ∃ bits, encStringColumn true [some [0, 0], some [0, 0]] 2 = .ok bits ∧
    readStringColumn 2 2 (bits ++ [true]) = .ok ([[0, 0], [0, 0]], [true]) :=
  ⟨_, rfl, by decide⟩

end Bufr
