/-
  C04 — tie to the Python source (`Gen/PyConstants.lean`, regenerated from `pybufrkit/constants.py` on
  every check): the start and stop signatures of the framing model are the ones the source defines.
-/
import BufrModel.Msg.Sections
import BufrModel.Spec.Frame
import BufrModel.Gen.PyConstants
namespace Bufr
open PyGen.constants

/-- `MESSAGE_START_SIGNATURE` (`b'BUFR'`) is the model's `startSig`. -/
theorem C04_src_const_start_signature : startSig = MESSAGE_START_SIGNATURE := by decide

/-- `MESSAGE_STOP_SIGNATURE` (`b'7777'`) is the `stopSig` of the frame specification. -/
theorem C04_src_const_stop_signature : stopSig = MESSAGE_STOP_SIGNATURE := by decide

/-- an octet is `NBITS_PER_BYTE` bits in the frame specification (`honoured`: declared length `d` means `8 * d` bits) -/
theorem C04_src_const_nbits_per_byte : NBITS_PER_BYTE = 8 := by decide

end Bufr
