/-
  C04 — tie to the Python source (`Gen/PyConstants.lean`, regenerated from `pybufrkit/constants.py` on
  every check): the start and stop signatures of the framing model are the ones the source defines.
-/
import BufrModel.Msg.Sections
import BufrModel.Spec.Frame
import BufrModel.Gen.PyConstants
import BufrModel.Gen.PyDecoder
import BufrModel.Lemmas.SectionsSrc
namespace Bufr
open PyGen.constants

/-- `MESSAGE_START_SIGNATURE` (`b'BUFR'`) is the model's `startSig`. -/
theorem C04_src_const_start_signature : startSig = MESSAGE_START_SIGNATURE := by decide

/-- `MESSAGE_STOP_SIGNATURE` (`b'7777'`) is the `stopSig` of the frame specification. -/
theorem C04_src_const_stop_signature : stopSig = MESSAGE_STOP_SIGNATURE := by decide

/-- an octet is `NBITS_PER_BYTE` bits in the frame specification (`honoured`: declared length `d` means `8 * d` bits) -/
theorem C04_src_const_nbits_per_byte : NBITS_PER_BYTE = 8 := by decide

end Bufr

/-! ### the end of `Decoder.process_section`, translated from the source -/
namespace Bufr
open PyGen.decoder PyGen.decoder.process_section_finish

/-- **The end of `Decoder.process_section` is the model's `finishSection`** — the part from
    `if 'section_length' in section:` to the `return` (decoder.py:150-160), regenerated into `Gen/PyDecoder.lean
    process_section_finish` on every check; the parameter loop before it is NOT translated (this is a fragment).
    For every layout `s`, every section state `st` reached by the parameter loop, every bit reader and section object whose
    callbacks correspond to the model (`ReaderSpec`, `SectionSpec`; `hpos`: the reader stands `st.used` bits after the start
    of the section):
      * when `finishSection` succeeds the translated code returns normally, its return value is the section's `nbits`
        (the declared length in bits when padding was skipped, else the bits read), the reader is left with exactly the
        remaining bits `rest` at position `start + nbits`, and the section record is the accumulated one;
      * when `finishSection` fails — the overrun refusal `.lib`, or the reader running out of bits while skipping the
        padding — the translated code raises an exception of that class. -/
theorem C04_src_finish_section_eq {α : Type} (env : Env) (errOf : Py.Exc → Err) (bits : Py.Obj → Bits) (pos : Py.Obj → Nat)
    (hlib : errOf (.raised "PyBufrKitError") = .lib) (hr : ReaderSpec env errOf bits pos)
    (br : Py.Obj) (sec : Section) (s : SectionLayout) (st : DecSt α) (start : Nat)
    (hs : SectionSpec env sec s st.acc start) (hpos : pos br = start + st.used) :
    FinishOk env errOf bits pos s st start (finishSection s st (bits br)) (process_section_finish env br sec) :=
  finish_section_eq env errOf bits pos hlib hr br sec s st start hs hpos

/-- … hence the tail of the model's `decSection`: after the parameter loop (`decParams`) has produced `st` and left the
    bits `bits br`, the translated code completes the section exactly as `decSection` does -/
theorem C04_src_section_after_params {α : Type} (env : Env) (errOf : Py.Exc → Err) (bits : Py.Obj → Bits) (pos : Py.Obj → Nat)
    (hlib : errOf (.raised "PyBufrKitError") = .lib) (hr : ReaderSpec env errOf bits pos)
    (dc : DataCoder α) (s : SectionLayout) (reg : Registry) (start : Nat) (bs : Bits)
    (br : Py.Obj) (sec : Section) (st : DecSt α)
    (hpar : decParams dc start s.params 0 { reg := reg, acc := [], used := 0, data := none } bs = .ok (st, bits br))
    (hs : SectionSpec env sec s st.acc start) (hpos : pos br = start + st.used) :
    FinishOk env errOf bits pos s st start (decSection dc s reg start bs) (process_section_finish env br sec) := by
  have h : decSection dc s reg start bs = finishSection s st (bits br) := by
    simp only [decSection, R.bind, hpar]
  rw [h]
  exact finish_section_eq env errOf bits pos hlib hr br sec s st start hs hpos

/-- C12 (a damaged section length is a LIBRARY error): when more bits were read than the section declares, the translated
    code raises `PyBufrKitError` itself -/
theorem C04_src_overrun_is_library_error (env : Env) (errOf : Py.Exc → Err) (bits : Py.Obj → Bits) (pos : Py.Obj → Nat)
    (hr : ReaderSpec env errOf bits pos) (br : Py.Obj) (sec : Section) (start used d : Nat) (i : Int)
    (hc : env.section_contains sec "section_length".toList = .ok true)
    (hst : env.section_get_metadata sec BITPOS_START = .ok (start : Int))
    (hix : env.section_get_metadata sec "index".toList = .ok i)
    (hv : sec.section_length_value = (d : Int)) (hpos : pos br = start + used) (hover : d * 8 < used) :
    (process_section_finish env br sec).2 = .error (.raised "PyBufrKitError") := by
  have hgp := hr.get_pos
  have hix' : env.section_get_metadata sec ['i', 'n', 'd', 'e', 'x'] = .ok i := hix
  have hc' : env.section_contains sec ['s', 'e', 'c', 't', 'i', 'o', 'n', '_', 'l', 'e', 'n', 'g', 't', 'h'] = .ok true := hc
  have h8 : NBITS_PER_BYTE = 8 := rfl
  have hnr : ((pos br : Int) - (start : Int)) = (used : Int) := by rw [hpos]; omega
  have hng : ¬ ((0 : Int) < (d : Int) * 8 - (used : Int)) := by omega
  have hlt : (d : Int) * 8 - (used : Int) < 0 := by omega
  simp only [process_section_finish, Py.Flow.bind, Py.Flow.eval, Py.Flow.finish, hc', hgp, hst, hnr, hv, h8, hng, hlt, hix',
    bind, Except.bind, pure, Except.pure, if_true, if_false, decide_true, decide_false, Int.ofNat_eq_natCast,
    Int.natCast_zero, Bool.false_eq_true]

/-- the hypotheses are satisfiable: a reader over a concrete bit list (state = number of bits consumed) -/
example : ∃ (env : Env) (errOf : Py.Exc → Err) (bits : Py.Obj → Bits) (pos : Py.Obj → Nat),
    errOf (.raised "PyBufrKitError") = .lib ∧ ReaderSpec env errOf bits pos :=
  ⟨{ section_contains := fun _ _ => .ok false, bit_reader_get_pos := fun br => .ok (br.tag : Int),
     section_get_metadata := fun _ _ => .ok 0,
     bit_reader_read_bin := fun br n => if n = 0 then .ok ({}, br) else .error .indexError },
   fun x => if x = .raised "PyBufrKitError" then .lib else .bitRead, fun _ => [], fun br => br.tag,
   by decide,
   ⟨fun _ => rfl,
    fun br n v rest h => by
      cases n with
      | zero => simp [readBin, readBits] at h; exact ⟨{}, br, rfl, h.2.symm ▸ rfl, rfl⟩
      | succ n => simp [readBin, readBits] at h,
    fun br n e h => by
      cases n with
      | zero => simp [readBin, readBits] at h
      | succ n =>
        simp [readBin, readBits] at h
        refine ⟨.indexError, ?_, ?_⟩
        · simp; omega
        · rw [← h]; decide⟩⟩

end Bufr

