/-
  C01 (headline): "Decoding yields exactly the values FM-94 assigns to the bit stream ... in template
  order with fixed and delayed replication expanded".

  The implementation (model: `buildD` then `walkList`) builds a descriptor TREE and walks it.
  `Spec/FlatWalk.lean` states the FM-94 reading on the FLAT descriptor list with explicit counting
  (`flatWalk`).  Here: the two coincide, for ALL primitives `P` (decoder uncompressed / compressed,
  encoder uncompressed / compressed, value generation), ALL coder states and ALL tables, on every
  descriptor list the implementation can build at all (`WFflat`, decidable; `C01_wfflat_iff_build`).

  Outside `WFflat` the two readings fail DIFFERENTLY: `buildD` fails up front with `Err.other`
  (a delayed replication without factor: `StopIteration`; Table D nesting beyond `depth`), the flat
  reading processes the list until it reaches the offending descriptor and may fail earlier with
  another error or not reach it at all (`C01_outside_wf_differ` below).

  About the statement asked for ("do not copy the implementation's treatment of a composite member
  in the prelude; exclude it by a static `WFflat`"): that statement is FALSE for every flat reading
  that differs from the tree walk on "206YYY pending in front of a replication descriptor", because
  the theorem quantifies over all primitives and all states, and whether a skip is pending is a
  property of the state (a primitive may set the register; the initial state may have it set):
  `C01_static_wf_insufficient` below is the counterexample.  The strongest true variant is proved
  instead: `flatWalk` treats every flat id except a delayed factor as a member (prelude applied), and a
  member whose action is by-passed by the prelude is by-passed together with its operands.  With that
  reading NO hypothesis beyond well-countedness is needed.  The stricter FM-94 notion (`fm94Strict`:
  206YYY in front of a non-composite descriptor, 221YYY in front of YYY element descriptors, full
  scopes) is defined and reported by the driver, but no theorem needs it.
-/
import BufrModel.Lemmas.FlatWalk
namespace Bufr
open Bufr.Spec Bufr.Flat

/-! ### the flat reading is the tree walk -/

/-- `WFflat` is exactly "the implementation can build the template at this depth". -/
theorem C01_wfflat_iff_build (T : Tables) (depth : Nat) (ids : List Nat) :
    WFflat T depth ids ↔ ∃ t, buildD T depth ids = .ok t :=
  wfCount_iff_build T depth ids

/-- `WFflat` is monotone in the depth. -/
theorem C01_wfflat_mono {T : Tables} {d d' : Nat} {ids : List Nat}
    (h : WFflat T d ids) (hle : d ≤ d') : WFflat T d' ids :=
  wfCount_mono h hle

/-- Whenever the tree is built, walking it is the flat reading (same depth as fuel). -/
theorem C01_flat_eq_tree_of_build (P : Prims) (T : Tables) (depth : Nat) (ids : List Nat)
    (t : List Desc) (h : buildD T depth ids = .ok t) (s : St) :
    flatWalk P T depth ids s = walkList P t s :=
  flatWalk_eq_walk P T depth ids t h s

/-- HEADLINE.  On a well-counted descriptor list (`WFflat T d ids`), for every fuel and every build
    depth that are at least `d`, for all primitives, tables and states: the FM-94 flat reading equals
    build-then-walk. -/
theorem C01_flat_eq_tree (P : Prims) (T : Tables) {d fuel depth : Nat} {ids : List Nat}
    (hwf : WFflat T d ids) (hfuel : d ≤ fuel) (hdepth : d ≤ depth) (s : St) :
    flatWalk P T fuel ids s = (buildD T depth ids >>= fun t => walkList P t s) := by
  obtain ⟨t, ht⟩ := (wfCount_iff_build T d ids).1 hwf
  rw [buildD_mono T d ids t ht depth hdepth]
  exact flatWalk_eq_walk P T fuel ids t (buildD_mono T d ids t ht fuel hfuel) s

/-- the same for the driver's `build` (depth `defaultDepth`) -/
theorem C01_flat_eq_build_walk (P : Prims) (T : Tables) {d fuel : Nat} {ids : List Nat}
    (hwf : WFflat T d ids) (hfuel : d ≤ fuel) (hd : d ≤ defaultDepth) (s : St) :
    flatWalk P T fuel ids s = (build T ids >>= fun t => walkList P t s) :=
  C01_flat_eq_tree P T hwf hfuel hd s

/-- the fuel is immaterial once it suffices -/
theorem C01_flat_fuel_irrelevant (P : Prims) (T : Tables) {d fuel : Nat} {ids : List Nat}
    (hwf : WFflat T d ids) (hfuel : d ≤ fuel) (s : St) :
    flatWalk P T fuel ids s = flatWalk P T d ids s :=
  flatWalk_fuel_mono P T hwf hfuel s

/-! ### decoding -/

/-- one uncompressed subset -/
theorem C01_decode_eq_flat (T : Tables) {d fuel depth : Nat} {ids : List Nat}
    (hwf : WFflat T d ids) (hfuel : d ≤ fuel) (hdepth : d ≤ depth) (bits : Bits) :
    flatDecodeSubset T fuel ids bits = (buildD T depth ids >>= fun t => decodeSubset t bits) := by
  obtain ⟨t, ht⟩ := (wfCount_iff_build T d ids).1 hwf
  have hw : ∀ s, flatWalk decPrimsU T fuel ids s = walkList decPrimsU t s :=
    flatWalk_eq_walk _ T fuel ids t (buildD_mono T d ids t ht fuel hfuel)
  rw [buildD_mono T d ids t ht depth hdepth]
  show flatDecodeSubset T fuel ids bits = decodeSubset t bits
  simp only [flatDecodeSubset, decodeSubset, hw]
  cases walkList decPrimsU t { bits := bits, vals := [[]] } <;> rfl

theorem C01_decodeSubsets_eq_flat (T : Tables) {d fuel depth : Nat} {ids : List Nat}
    (hwf : WFflat T d ids) (hfuel : d ≤ fuel) (hdepth : d ≤ depth) (n : Nat) (bits : Bits) :
    flatDecodeSubsets T fuel ids n bits = (buildD T depth ids >>= fun t => decodeSubsets t n bits) := by
  obtain ⟨t, ht⟩ := (wfCount_iff_build T d ids).1 hwf
  have h1 : ∀ b, flatDecodeSubset T fuel ids b = decodeSubset t b := fun b => by
    have h := C01_decode_eq_flat T hwf hfuel (Nat.le_refl d) b
    rw [ht] at h
    exact h
  rw [buildD_mono T d ids t ht depth hdepth]
  show flatDecodeSubsets T fuel ids n bits = decodeSubsets t n bits
  induction n generalizing bits with
  | zero => rfl
  | succ n ih =>
    simp only [flatDecodeSubsets, decodeSubsets, h1]
    cases decodeSubset t bits with
    | error e => rfl
    | ok r =>
      obtain ⟨o, rest⟩ := r
      simp only [ih]
      cases decodeSubsets t n rest with
      | error e => rfl
      | ok r => obtain ⟨os, rest'⟩ := r; rfl

/-- compressed data: all subsets at once -/
theorem C01_decodeCompressed_eq_flat (T : Tables) {d fuel depth : Nat} {ids : List Nat}
    (hwf : WFflat T d ids) (hfuel : d ≤ fuel) (hdepth : d ≤ depth) (n : Nat) (bits : Bits) :
    flatDecodeCompressed T fuel ids n bits = (buildD T depth ids >>= fun t => decodeCompressed t n bits) := by
  obtain ⟨t, ht⟩ := (wfCount_iff_build T d ids).1 hwf
  have hw : ∀ s, flatWalk decPrimsC T fuel ids s = walkList decPrimsC t s :=
    flatWalk_eq_walk _ T fuel ids t (buildD_mono T d ids t ht fuel hfuel)
  rw [buildD_mono T d ids t ht depth hdepth]
  show flatDecodeCompressed T fuel ids n bits = decodeCompressed t n bits
  simp only [flatDecodeCompressed, decodeCompressed, hw]
  cases walkList decPrimsC t { bits := bits, vals := List.replicate n [] } <;> rfl

/-- `Decoder.process_template_data`: uncompressed and compressed -/
theorem C01_decodeData_eq_flat (T : Tables) {d fuel depth : Nat} {ids : List Nat}
    (hwf : WFflat T d ids) (hfuel : d ≤ fuel) (hdepth : d ≤ depth)
    (compressed : Bool) (n : Nat) (bits : Bits) :
    flatDecodeData T fuel ids compressed n bits
      = (buildD T depth ids >>= fun t => decodeData t compressed n bits) := by
  obtain ⟨t, ht⟩ := (wfCount_iff_build T d ids).1 hwf
  have h1 := C01_decodeSubsets_eq_flat T hwf hfuel hdepth n bits
  have h2 := C01_decodeCompressed_eq_flat T hwf hfuel hdepth n bits
  rw [buildD_mono T d ids t ht depth hdepth] at h1 h2 ⊢
  show flatDecodeData T fuel ids compressed n bits = decodeData t compressed n bits
  cases compressed
  · simp only [flatDecodeData, decodeData]; exact h1
  · simp only [flatDecodeData, decodeData]; exact h2

/-! ### the FM-94 rules, readable off `flatWalk`

  Each rule is first stated with the member prelude in front (all states), then for a state in which
  nothing is pending (`NoPending`: no 221 count, no 206 skip, no bitmap definition under way), where
  the prelude disappears. -/

/-- Regulation 94.5.4.1, fixed replication: "the next XX descriptors are repeated YYY times",
    then the walk continues behind them. -/
theorem C01_replication_expanded (P : Prims) (T : Tables) (f : Nat) (id : Nat) (body rest : List Nat)
    (h1 : 100000 ≤ id) (h2 : id < 200000) (hy : yOf id ≠ 0) (hx : body.length = xOf id) (s : St) :
    flatWalk P T f (id :: (body ++ rest)) s
      = (memberPrelude P id none (iterN (yOf id) (flatWalk P T f body)) s >>= flatWalk P T f rest) := by
  rw [flatWalk.eq_def]
  have h3 : ¬ 300000 ≤ id := by omega
  have h2' : ¬ 200000 ≤ id := by omega
  simp only [h3, h2', h1, hy, if_true, if_false, ← hx, List.take_left', List.drop_left']

theorem C01_replication_expanded_clean (P : Prims) (T : Tables) (f : Nat) (id : Nat) (body rest : List Nat)
    (h1 : 100000 ≤ id) (h2 : id < 200000) (hy : yOf id ≠ 0) (hx : body.length = xOf id)
    (s : St) (hs : NoPending s) :
    flatWalk P T f (id :: (body ++ rest)) s
      = (iterN (yOf id) (flatWalk P T f body) s >>= flatWalk P T f rest) := by
  rw [C01_replication_expanded P T f id body rest h1 h2 hy hx, memberPrelude_none hs]

/-- "Replication EXPANDED": when nothing is pending and the scopes inside the replicated descriptors
    are closed, reading `1XXYYY :: body ++ rest` is literally reading `body` written out YYY times,
    followed by `rest`. -/
theorem C01_replication_unrolled (P : Prims) (T : Tables) (f : Nat) (id : Nat) (body rest : List Nat)
    (h1 : 100000 ≤ id) (h2 : id < 200000) (hy : yOf id ≠ 0) (hx : body.length = xOf id)
    (hclosed : scopesClosed body = true) (s : St) (hs : NoPending s) :
    flatWalk P T f (id :: (body ++ rest)) s
      = flatWalk P T f ((List.replicate (yOf id) body).flatten ++ rest) s := by
  rw [C01_replication_expanded_clean P T f id body rest h1 h2 hy hx s hs,
    flatWalk_append P T f _ rest (scopesClosed_replicate _ _ hclosed), iterN_flat P T f body hclosed]

/-- repeating a closed list `n` times is reading its `n`-fold concatenation (any state) -/
theorem C01_iterN_unrolled (P : Prims) (T : Tables) (f : Nat) (body : List Nat)
    (hclosed : scopesClosed body = true) (n : Nat) (s : St) :
    iterN n (flatWalk P T f body) s = flatWalk P T f (List.replicate n body).flatten s :=
  iterN_flat P T f body hclosed n s

/-- What the flat reading (and the implementation) does when a 206YYY skip is pending in front of a
    replication descriptor (FM-94 leaves this undefined; `fm94Strict` excludes it): ONE field of YYY
    bits stands for the replication descriptor together with its whole scope. -/
theorem C01_skip_pending_on_replication (P : Prims) (T : Tables) (f : Nat) (id : Nat) (body rest : List Nat)
    (h1 : 100000 ≤ id) (h2 : id < 200000) (hy : yOf id ≠ 0) (hx : body.length = xOf id)
    (s : St) (hdnp : s.regs.dnpCount = 0) (hskip : s.regs.nbitsSkipped ≠ 0) :
    flatWalk P T f (id :: (body ++ rest)) s
      = (P.codeflag (.skipped id s.regs.nbitsSkipped) s.regs.nbitsSkipped s
          >>= fun s' => flatWalk P T f rest (s'.setRegs fun r => { r with nbitsSkipped := 0 })) := by
  rw [C01_replication_expanded P T f id body rest h1 h2 hy hx]
  simp only [memberPrelude, memberRules, hdnp, hskip, ne_eq, not_true_eq_false, not_false_eq_true,
    decide_false, Bool.false_and, if_false, if_true, ite_self, Bool.false_eq_true]
  cases P.codeflag (.skipped id s.regs.nbitsSkipped) s.regs.nbitsSkipped s <;> rfl

/-- the strict FM-94 well-formedness implies the hypothesis of the equivalence theorem -/
theorem C01_fm94Strict_wfflat (T : Tables) (depth : Nat) (ids : List Nat)
    (h : fm94Strict T depth ids = true) : WFflat T depth ids :=
  fm94Strict_wf T depth ids h

/-- Regulation 94.5.5, delayed replication `1XX000`: the descriptor that follows is the factor (an
    element descriptor, not counted among the XX and not a member); its value is the number of times
    the next XX descriptors are repeated. -/
theorem C01_delayed_replication_expanded (P : Prims) (T : Tables) (f : Nat) (id fac : Nat)
    (body rest : List Nat)
    (h1 : 100000 ≤ id) (h2 : id < 200000) (hy : yOf id = 0) (hx : body.length = xOf id) (s : St) :
    flatWalk P T f (id :: fac :: (body ++ rest)) s
      = (memberPrelude P id none (delayedAction P T fac (flatWalk P T f body)) s >>= flatWalk P T f rest) := by
  rw [flatWalk.eq_def]
  have h3 : ¬ 300000 ≤ id := by omega
  have h2' : ¬ 200000 ≤ id := by omega
  simp only [h3, h2', h1, hy, if_true, if_false, ← hx, List.take_left', List.drop_left']

theorem C01_delayed_replication_expanded_clean (P : Prims) (T : Tables) (f : Nat) (id fac : Nat)
    (body rest : List Nat) (fe : Elem)
    (h1 : 100000 ≤ id) (h2 : id < 200000) (hy : yOf id = 0) (hx : body.length = xOf id)
    (hfac : T.b fac = some fe) (s : St) (hs : NoPending s) :
    flatWalk P T f (id :: fac :: (body ++ rest)) s
      = (do
          let s1 ← elementDescriptor P (.plain fe) fe s
          let n ← P.factorValue s1 >>= factorCount
          let s2 ← iterN n (flatWalk P T f body) s1
          flatWalk P T f rest s2) := by
  rw [C01_delayed_replication_expanded P T f id fac body rest h1 h2 hy hx, memberPrelude_none hs]
  simp only [delayedAction, hfac]
  cases elementDescriptor P (.plain fe) fe s with
  | error e => rfl
  | ok s1 =>
    simp only [bind_eq_match]
    cases P.factorValue s1 with
    | error e => rfl
    | ok v =>
      dsimp only
      cases factorCount v with
      | error e => rfl
      | ok n => rfl

/-- Regulation 94.5.6, sequence descriptor: its Table D row is run in its place (one level of
    Table D nesting is consumed). -/
theorem C01_sequence_expanded (P : Prims) (T : Tables) (f : Nat) (id : Nat) (row rest : List Nat)
    (h3 : 300000 ≤ id) (hrow : T.d id = some row) (s : St) :
    flatWalk P T (f + 1) (id :: rest) s
      = (memberPrelude P id none (flatWalk P T f row) s >>= flatWalk P T (f + 1) rest) := by
  rw [flatWalk.eq_def]
  simp only [h3, if_true, hrow]

/-- "A sequence descriptor is REPLACED by the list of descriptors of its Table D entry": when
    nothing is pending and the row is well counted with closed scopes, reading `id :: rest` is
    literally reading `row ++ rest`. -/
theorem C01_sequence_replaced (P : Prims) (T : Tables) (f : Nat) (id : Nat) (row rest : List Nat)
    (h3 : 300000 ≤ id) (hrow : T.d id = some row)
    (hwf : WFflat T f row) (hclosed : scopesClosed row = true) (s : St) (hs : NoPending s) :
    flatWalk P T (f + 1) (id :: rest) s = flatWalk P T (f + 1) (row ++ rest) s := by
  rw [C01_sequence_expanded P T f id row rest h3 hrow, memberPrelude_none hs,
    flatWalk_append P T (f + 1) row rest hclosed, flatWalk_fuel_mono P T hwf (Nat.le_succ f)]

/-- a list whose replication scopes are closed can be read piecewise -/
theorem C01_flat_append (P : Prims) (T : Tables) (f : Nat) (ids₁ ids₂ : List Nat)
    (h : scopesClosed ids₁ = true) (s : St) :
    flatWalk P T f (ids₁ ++ ids₂) s = (flatWalk P T f ids₁ s >>= flatWalk P T f ids₂) :=
  flatWalk_append P T f ids₁ ids₂ h s

/-- element descriptor: one field, described by its Table B entry under the registers in force -/
theorem C01_element_step (P : Prims) (T : Tables) (f : Nat) (id : Nat) (rest : List Nat) (e : Elem)
    (h1 : id < 100000) (he : T.b id = some e) (s : St) :
    flatWalk P T f (id :: rest) s
      = (memberPrelude P e.id (some e) (elementDescriptor P (.plain e) e) s >>= flatWalk P T f rest) := by
  rw [flatWalk.eq_def]
  have h3 : ¬ 300000 ≤ id := by omega
  have h2 : ¬ 200000 ≤ id := by omega
  have h1' : ¬ 100000 ≤ id := by omega
  simp only [h3, h2, h1', if_false, he]

/-- operator descriptor: the operator step, then the descriptors that follow -/
theorem C01_operator_step (P : Prims) (T : Tables) (f : Nat) (id : Nat) (rest : List Nat)
    (h2 : 200000 ≤ id) (h3 : id < 300000) (s : St) :
    flatWalk P T f (id :: rest) s
      = (memberPrelude P id none (operatorDescriptor P id) s >>= flatWalk P T f rest) := by
  rw [flatWalk.eq_def]
  have h3' : ¬ 300000 ≤ id := by omega
  simp only [h3', h2, if_true, if_false]

/-- an id that is in no table is an error when (and only when) it is reached with nothing pending -/
theorem C01_unknown_descriptor (P : Prims) (T : Tables) (f : Nat) (id : Nat) (rest : List Nat)
    (hid : id < 100000 ∧ T.b id = none ∨ 300000 ≤ id ∧ T.d id = none) (s : St) (hs : NoPending s) :
    flatWalk P T f (id :: rest) s = .error .unknownDescr := by
  rw [flatWalk.eq_def]
  rcases hid with ⟨h1, hb⟩ | ⟨h3, hd⟩
  · have h3 : ¬ 300000 ≤ id := by omega
    have h2 : ¬ 200000 ≤ id := by omega
    have h1' : ¬ 100000 ≤ id := by omega
    simp only [h3, h2, h1', if_false, hb, memberPrelude_none hs]
    rfl
  · simp only [h3, if_true, hd, memberPrelude_none hs]
    rfl

/-! ### non-vacuity: a concrete table, a nested template, a concrete bit string -/

namespace C01FlatEx

def exT : Tables where
  b := fun id =>
    if id = 1001 then some ⟨1001, .numeric, 7, 0, 0⟩
    else if id = 2001 then some ⟨2001, .codeflag, 3, 0, 0⟩
    else if id = 12001 then some ⟨12001, .numeric, 12, 1, -100⟩
    else if id = 31001 then some ⟨31001, .numeric, 8, 0, 0⟩
    else none
  d := fun id => if id = 301001 then some [1001, 102002, 2001, 12001] else none

/-- delayed replication of 5 descriptors: a Table D sequence (which contains a fixed replication),
    201130 (widths + 2), a fixed replication of one element, 201000; then one more element -/
def exIds : List Nat := [105000, 31001, 301001, 201130, 101002, 12001, 201000, 1001]

def exTree : List Desc :=
  [.delayedRep 105000 (.elem ⟨31001, .numeric, 8, 0, 0⟩)
    [.seq 301001 [.elem ⟨1001, .numeric, 7, 0, 0⟩,
        .fixedRep 102002 [.elem ⟨2001, .codeflag, 3, 0, 0⟩, .elem ⟨12001, .numeric, 12, 1, -100⟩]],
     .op 201130, .fixedRep 101002 [.elem ⟨12001, .numeric, 12, 1, -100⟩], .op 201000],
   .elem ⟨1001, .numeric, 7, 0, 0⟩]

def bitsOfNat (w n : Nat) : Bits := (List.range w).reverse.map fun i => n.testBit i

/-- factor 2; two iterations of 7+3+12+3+12+14+14 bits; the last element; 3 bits left over -/
def exBits : Bits :=
  bitsOfNat 8 2 ++
    (bitsOfNat 7 5 ++ bitsOfNat 3 1 ++ bitsOfNat 12 300 ++ bitsOfNat 3 7 ++ bitsOfNat 12 4095
      ++ bitsOfNat 14 1000 ++ bitsOfNat 14 1001) ++
    (bitsOfNat 7 6 ++ bitsOfNat 3 2 ++ bitsOfNat 12 301 ++ bitsOfNat 3 3 ++ bitsOfNat 12 0
      ++ bitsOfNat 14 16383 ++ bitsOfNat 14 0) ++
    bitsOfNat 7 127 ++ [true, false, true]

def exVals : List Val :=
  [.int 2, .int 5, .int 1, .num 200 1, .missing, .missing, .num 900 1, .num 901 1,
   .int 6, .int 2, .num 201 1, .int 3, .num (-100) 1, .missing, .num (-100) 1, .missing]

/-- the template is well counted at depth 1 (and strictly FM-94 well formed), not at depth 0 -/
example : WFflat exT 1 exIds := by simp [WFflat, wfCount, exT, exIds, xOf, yOf]
example : ¬ WFflat exT 0 exIds := by simp [WFflat, wfCount, exT, exIds, xOf, yOf]
example : fm94Strict exT 1 exIds = true := by simp [fm94Strict, exT, exIds, xOf, yOf]
example : scopesClosed exIds = true := by simp [scopesClosed, exIds, xOf, yOf]

/-- the implementation's tree -/
theorem build_ex : buildD exT 1 exIds = .ok exTree := by
  simp [buildD, exT, exIds, xOf, Tables.lookupB, exTree, bind, Except.bind, pure, Except.pure]

/-- the flat reading of the bit string, computed from `flatWalk` alone ... -/
theorem flat_ex :
    (flatDecodeSubset exT 1 exIds exBits).map (fun r => (r.1.vals, r.2)) = .ok (exVals, [true, false, true]) := by
  simp [flatDecodeSubset, flatWalk, exT, exIds, xOf, yOf]
  decide +kernel

/-- ... and the tree walk of the same bit string, computed from `walkList` alone: the same values
    (uncompressed) ... -/
theorem tree_ex :
    (decodeSubset exTree exBits).map (fun r => (r.1.vals, r.2)) = .ok (exVals, [true, false, true]) := by
  decide +kernel

/-- ... and the whole results agree, as `C01_decode_eq_flat` says they must. -/
example : flatDecodeSubset exT 1 exIds exBits = (buildD exT 1 exIds >>= fun t => decodeSubset t exBits) :=
  C01_decode_eq_flat exT (d := 1) (by simp [WFflat, wfCount, exT, exIds, xOf, yOf]) (Nat.le_refl _) (Nat.le_refl _) _

/-- the hypotheses of the rule theorems are satisfiable: the body of the fixed replication 102002 in
    the Table D row -/
example (P : Prims) (s : St) (hs : NoPending s) :
    flatWalk P exT 0 (102002 :: ([2001, 12001] ++ [])) s
      = (iterN 2 (flatWalk P exT 0 [2001, 12001]) s >>= flatWalk P exT 0 []) :=
  C01_replication_expanded_clean P exT 0 102002 [2001, 12001] [] (by decide) (by decide) (by decide) (by decide) s hs

example : NoPending ({ bits := exBits, vals := [[]] } : St) := ⟨rfl, rfl, rfl⟩

/-- `102002 2001 12001` is `2001 12001 2001 12001`, and `301001` is its row, literally -/
example (P : Prims) (s : St) (hs : NoPending s) :
    flatWalk P exT 0 (102002 :: ([2001, 12001] ++ [1001])) s
      = flatWalk P exT 0 ([2001, 12001, 2001, 12001] ++ [1001]) s :=
  C01_replication_unrolled P exT 0 102002 [2001, 12001] [1001] (by decide) (by decide) (by decide) (by decide)
    (by simp [scopesClosed]) s hs

example (P : Prims) (s : St) (hs : NoPending s) :
    flatWalk P exT 1 (301001 :: [1001]) s = flatWalk P exT 1 ([1001, 102002, 2001, 12001] ++ [1001]) s :=
  C01_sequence_replaced P exT 0 301001 _ [1001] (by decide) (by simp [exT])
    (by simp [WFflat, wfCount, exT, xOf, yOf]) (by simp [scopesClosed, xOf, yOf]) s hs

/-- Outside `WFflat` the two readings fail differently: a delayed replication without factor at the
    end of the list.  The tree is never built (`Err.other`); the flat reading decodes the first
    element and fails only on reaching the replication — or, on too short a bit string, earlier with
    the decoder's own error. -/
theorem C01_outside_wf_differ :
    ¬ WFflat exT 1 [1001, 101000]
    ∧ (buildD exT 1 [1001, 101000] >>= fun t => decodeSubset t []) = .error .other
    ∧ flatDecodeSubset exT 1 [1001, 101000] [] = .error .bitRead := by
  refine ⟨by simp [WFflat, wfCount, exT, yOf], ?_, ?_⟩
  · simp [buildD, exT, bind, Except.bind]
  · simp [flatDecodeSubset, flatWalk, exT, yOf]
    decide +kernel

/-- The natural "counting" alternative for a replication descriptor in front of which a 206 skip is
    pending: only the descriptor itself is replaced by the field, the ids that follow are read as
    ordinary members.  (The tree walk skips the whole subtree.) -/
def altSkippedReplication (P : Prims) (T : Tables) (id : Nat) (rest : List Nat) (s : St) : CM St :=
  match memberPrelude P id none (fun s' => .ok s') s with
  | .error e => .error e
  | .ok s' => flatWalk P T 0 rest s'

/-- No STATIC well-formedness predicate can reconcile that alternative with the tree walk for all
    states: the descriptor list `[101001, 1001]` contains no operator at all (so it satisfies any
    static condition about 206YYY), yet from a state with a skip pending the tree walk reads one 8-bit
    field (the replication as a whole) where the alternative reads 8 + 7 bits. -/
theorem C01_static_wf_insufficient :
    let s : St := { regs := { nbitsSkipped := 8 }, bits := bitsOfNat 8 1 ++ bitsOfNat 7 1, vals := [[]] }
    fm94Strict exT 0 [101001, 1001] = true
    ∧ ((buildD exT 0 [101001, 1001] >>= fun t => walkList decPrimsU t s).map (·.bits.length)) = .ok 7
    ∧ ((flatWalk decPrimsU exT 0 [101001, 1001] s).map (·.bits.length)) = .ok 7
    ∧ ((altSkippedReplication decPrimsU exT 101001 [1001] s).map (·.bits.length)) = .ok 0 := by
  refine ⟨by simp [fm94Strict, exT, xOf, yOf], ?_, ?_, ?_⟩
  · simp [buildD, exT, xOf, Tables.lookupB, bind, Except.bind, pure, Except.pure]
    decide +kernel
  · simp [flatWalk, exT, xOf, yOf]
    decide +kernel
  · simp [altSkippedReplication, flatWalk, exT]
    decide +kernel

end C01FlatEx

end Bufr
