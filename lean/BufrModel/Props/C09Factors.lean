/-
  C09, compressed data after the repair of finding F24: the hypothesis on the delayed replication counts of the compressed
  link theorems (Props/C09Wire.lean, `Spec.sameCountsList`) is derived for decoded output, so EVERY subset of a compressed
  message with a `quietList` template is rendered and converted back, not only those that happen to carry the counts of
  subset 0.  The proved negation for the code BEFORE the repair is `C09_compressed_missing_count_breaks`
  (Props/C09Wire.lean, about `decodeCompressedLax`).
-/
import BufrModel.Props.C09Wire
import BufrModel.Lemmas.CompFactorsWire
namespace Bufr
open Bufr.C09

/-- COMPRESSED data, classes `C09.quietList a`, every bit string, every number of subsets: when the compressed decode
    succeeds, the tree wired on subset 0 exists and EVERY subset carries, at every delayed replication factor of that tree,
    the count of subset 0 (`Spec.sameCountsList`: what "the subsets of compressed data share one structure" means for the
    renderers and for C16).
    MISSING for the full statement: templates outside the classes (as for `C09_decode_compressed_wire_consumes_all_partial`). -/
theorem C09_decode_compressed_same_counts_partial (a : Bool) (t : List Desc) (hq : quietList a t = true)
    (n : Nat) (bits rest : Bits) (outs : List SubsetOut) (o0 : SubsetOut)
    (h : decodeCompressed t n bits = .ok (outs, rest)) (h0 : outs.head? = some o0) :
    ∃ tree, wire t o0 = .ok tree ∧ ∀ o ∈ outs, Spec.sameCountsList o0 o tree = true := by
  obtain ⟨w, hw, hn, hp, htab, hall⟩ := decodeCompressed_wire hq h h0
  have h00 : o0 ∈ outs := List.mem_of_mem_head? h0
  have hlen0 := (hall o0 h00).2.2
  have htree : w.tree = .ok w.nodes := by
    unfold Wired.tree Wired.fuel
    rw [htab]
    exact resolveList_plain o0 (2 * w.st.next + 3) ⟨by omega, fun _ => by omega⟩ w.nodes hp
  have hwire : wire t o0 = .ok w.nodes := by unfold wire; rw [hw]; exact htree
  exact ⟨w.nodes, hwire, decodeCompressed_sameCounts hq h h0 hw⟩

/-- `C09_decode_compressed_nested_json_to_flat_partial` WITHOUT the hypothesis on the counts: for every successful compressed
    decode `wireAll` succeeds with the tree of subset 0 shared by all subsets, and for EVERY subset rendering succeeds and
    nested JSON -> flat returns that subset's decoded values.
    MISSING: templates outside the classes. -/
theorem C09_decode_compressed_nested_json_to_flat_all_subsets_partial (a : Bool) (t : List Desc)
    (hq : quietList a t = true) (n : Nat) (bits rest : Bits) (outs : List SubsetOut) (o0 : SubsetOut)
    (h : decodeCompressed t n bits = .ok (outs, rest)) (h0 : outs.head? = some o0) :
    ∃ tree, wire t o0 = .ok tree ∧ wireAll t true outs = .ok (outs.map fun _ => tree) ∧
      ∀ o ∈ outs, (renderNested o tree >>= nestedJsonToFlat) = .ok o.vals := by
  obtain ⟨tree, hwire, hall, hr⟩ := C09_decode_compressed_nested_json_to_flat_partial a t hq n bits rest outs o0 h h0
  obtain ⟨tree', hwire', hs⟩ := C09_decode_compressed_same_counts_partial a t hq n bits rest outs o0 h h0
  rw [hwire] at hwire'
  injection hwire' with e
  subst e
  exact ⟨tree, hwire, hall, fun o ho => hr o ho (hs o ho)⟩

/-- the same read off a whole compressed data section: `decodeData t true n bits` and the list of trees `wireAll` returns -/
theorem C09_decode_message_compressed_all_subsets_partial (a : Bool) (t : List Desc)
    (hq : quietList a t = true) (n : Nat) (bits rest : Bits) (outs : List SubsetOut)
    (h : decodeData t true n bits = .ok (outs, rest)) (hne : outs ≠ []) :
    ∃ trees, wireAll t true outs = .ok trees ∧ trees.length = outs.length ∧
      ∀ p ∈ outs.zip trees, (renderNested p.1 p.2 >>= nestedJsonToFlat) = .ok p.1.vals := by
  have h' : decodeCompressed t n bits = .ok (outs, rest) := by
    unfold decodeData at h
    simpa using h
  cases ho : outs with
  | nil => exact absurd ho hne
  | cons o0 os =>
    rw [ho] at h'
    obtain ⟨tree, _, hall, hr⟩ :=
      C09_decode_compressed_nested_json_to_flat_all_subsets_partial a t hq n bits rest (o0 :: os) o0 h' rfl
    refine ⟨(o0 :: os).map fun _ => tree, hall, by simp, fun p hp => ?_⟩
    have hp1 : p.1 ∈ o0 :: os := (List.of_mem_zip hp).1
    have hp2 : p.2 = tree := by
      have := (List.of_mem_zip hp).2
      rw [List.mem_map] at this
      obtain ⟨_, _, e⟩ := this
      exact e.symm
    rw [hp2]
    exact hr p.1 hp1

/-! ### non-vacuity: `exT` of Props/C09.lean, two subsets decoded from bits (the last column varies) -/

example : quietList true exT = true ∧
    (decodeCompressed exT 2 exBitsC).toOption.map (fun r => r.1.length) = some 2 := by decide +kernel

/-- the witness of finding F24 no longer decodes: the repaired check refuses it with the library error, and the same
    column with the count present in both subsets decodes and every subset converts back -/
example : decodeCompressed exTM 2 exBitsM = .error .lib ∧
    ((decodeCompressed exTM 2 (toBits 8 1 ++ toBits 6 2 ++ toBits 2 0 ++ toBits 2 0 ++ exColEq 7 9)).toOption.map fun r =>
      match wireAll exTM true r.1 with
      | .ok trees => (r.1.zip trees).all fun p =>
          ((renderNested p.1 p.2 >>= nestedJsonToFlat).toOption == some p.1.vals)
      | _ => false) = some true := by decide +kernel

end Bufr
