/-
  C05 — the check's "other producer" only writes legal increment widths.

  The correspondence check of C05 (harness/props/c05.py, parts (b) and (c)) has the MODEL write
  compressed columns with increment widths that pybufrkit's encoder would not choose
  (`Coder/EncodeWidths.lean`, driver op `enc-data-widths`) and requires the IMPLEMENTATION's decoder to
  read them back.  These theorems tie that producer to `Spec.LegalWidth`, the notion of "legal
  difference width" that `C05_every_legal_width` is about: whatever the harness requests, the bits
  it obtains are either exactly the encoder's own column or the specification column of a legal
  width, and the model decoder reads them back.
-/
import BufrModel.Coder.EncodeWidths
import BufrModel.Spec.Column
import BufrModel.Props.C05
namespace Bufr
open Widths

/-- The Boolean test the other producer applies before using a requested width is sound for
    `Spec.LegalWidth` (for every width and every column). -/
theorem C05_other_producer_width_legal (d : Nat) (raws : List (Option Nat))
    (h : legalWidthB d raws = true) : Spec.LegalWidth d raws := by
  unfold legalWidthB at h
  simp only [Bool.and_eq_true, Bool.or_eq_true, decide_eq_true_eq, bne_iff_ne, ne_eq, beq_iff_eq,
    List.all_eq_true] at h
  obtain ⟨⟨h1, h2⟩, h3⟩ := h
  refine ⟨h1, ?_, ?_⟩
  · intro hd r hr
    rcases h2 with h2 | h2
    · exact absurd hd h2
    · exact h2 r hr
  · intro hd
    rcases h3 with h3 | h3
    · omega
    · cases hm : Spec.colMin raws with
      | none => rw [hm] at h3; cases h3
      | some lo =>
        rw [hm] at h3
        simp only [List.all_eq_true] at h3
        refine ⟨lo, rfl, ?_⟩
        intro x hx
        have := h3 (some x) hx
        simpa using this

/-- non-vacuity: widths 1, 2 and 5 for a column over {5, missing}; width 0 is refused for it -/
example : legalWidthB 1 [some 5, none, some 5] = true ∧ legalWidthB 2 [some 5, none, some 5] = true ∧
    legalWidthB 5 [some 5, none, some 5] = true ∧ legalWidthB 0 [some 5, none, some 5] = false ∧
    legalWidthB 1 [some 5, some 6] = false := by decide

/-- A column written by the other producer — whatever width is requested, relative or absolute — is
    either exactly the column pybufrkit's encoder writes (`encIntColumn`) or the specification
    column `Spec.intColumnBitsWith d` of the whole column (an all-equal column taken `n` times) for
    a width `d` that is legal for it. -/
theorem C05_other_producer_column (relative : Bool) (k : Int) (allEqual : Bool) (n : Nat)
    (raws : List (Option Int)) (w : Nat) (bits : Bits)
    (h : intColumnReq relative k allEqual n raws w = .ok bits) :
    encIntColumn allEqual raws w = .ok bits ∨
    ∃ d, Spec.LegalWidth d ((if allEqual then List.replicate n (raws.headD none) else raws).map (Option.map Int.toNat)) ∧
      bits = Spec.intColumnBitsWith d ((if allEqual then List.replicate n (raws.headD none) else raws).map (Option.map Int.toNat)) w := by
  unfold intColumnReq at h
  split at h
  · cases h
  · rename_i own hown
    cases allEqual <;> cases relative <;>
      simp only [Bool.false_eq_true, if_false, if_true, Bool.true_and, Bool.false_and] at h ⊢ <;>
      (repeat' (split at h)) <;>
      first
      | (left; rw [hown]; exact h)
      | (right
         rename_i hl
         simp only [Bool.and_eq_true] at hl
         exact ⟨_, C05_other_producer_width_legal _ _ hl.1.2, by cases h; rfl⟩)

example : intColumnReq false 1 false 3 [some 5, none, some 5] 4 =
    .ok (Spec.intColumnBitsWith 1 [some 5, none, some 5] 4) := by decide
example : intColumnReq true 3 true 2 [some 7] 4 = .ok (Spec.intColumnBitsWith 3 [some 7, some 7] 4) := by decide

/-- Hence the model decoder reads back every column the other producer writes with a width of its
    own choosing (instance of `C05_every_legal_width`). -/
theorem C05_other_producer_read_back (w d : Nat) (raws : List (Option Nat)) (suf : Bits)
    (hw : 0 < w) (hw64 : w ≤ 64) (hr : Spec.InRange w raws) (hw1 : w = 1 → ∃ x, some x ∈ raws)
    (h : legalWidthB d raws = true) :
    readColumn w raws.length (Spec.intColumnBitsWith d raws w ++ suf) = .ok (raws, suf) :=
  C05_every_legal_width w d raws suf hw hw64 hr hw1 (C05_other_producer_width_legal d raws h)

example : readColumn 4 3 (Spec.intColumnBitsWith 1 [some 5, none, some 5] 4 ++ [false]) =
    .ok ([some 5, none, some 5], [false]) :=
  C05_other_producer_read_back 4 1 [some 5, none, some 5] [false] (by decide) (by decide)
    (by intro x hx; simp at hx; subst hx; decide) (by intro h; cases h) (by decide)

end Bufr
