/-
  Driver operations of C07:
    links-spec {"d":[labels..],"v":[values..],"cancels":[t..]}  -> {"l":[[attr,owner]..],"recalls_ok":b,"complete":b,"markers_ok":b}
        `Spec.links` evaluated on a flat item list as `dec-data` (or the implementation) reports it:
        labels are `str(descriptor)` ("001001", "A01001", "S63255", "T/F/D/R01001", "222000"),
        values as in CoderOp.  `cancels`: the item counts at which a 235000 was processed.
        (`markers_ok`: `Spec.markersOk`, the item-side hypothesis of `C07_links_eq_spec`)
    wf-bitmap {"ids":[..]} -> {"wf":b,"no235":b,"wflinks":b,"nocancel":b}
        (`Spec.WFbitmap`, and `Spec.WFlinks` / `Spec.noCancelL` — the template-side hypotheses of
         `C07_links_eq_spec` / `_no235` — of the template built from the ids)
-/
import BufrModel.Spec.Links
import BufrModel.Spec.LinkCancels
import BufrModel.Drv.CoderOp
open Lean
namespace Bufr.Drv

def digitsToNat (cs : List Char) : J Nat :=
  cs.foldlM (fun acc c => if '0' ≤ c ∧ c ≤ '9' then pure (acc * 10 + (c.toNat - '0'.toNat)) else throw s!"bad label digit {c}") 0

def dummyElem (id : Nat) : Elem := { id := id, kind := .numeric, nbits := 0, scale := 0, ref := 0 }

/-- inverse of `ddLabel` as far as the specification looks (kind of item and id) -/
def ddOfLabel (s : String) : J DDesc :=
  match s.toList with
  | 'A' :: r => do pure (.assoc (← digitsToNat r) 0)
  | 'S' :: r => do pure (.skipped (← digitsToNat r) 0)
  | 'T' :: r => do pure (.marker 223255 (dummyElem (← digitsToNat r)))
  | 'F' :: r => do pure (.marker 224255 (dummyElem (← digitsToNat r)))
  | 'D' :: r => do pure (.marker 225255 (dummyElem (← digitsToNat r)))
  | 'R' :: r => do pure (.marker 232255 (dummyElem (← digitsToNat r)))
  | cs => do
    let id ← digitsToNat cs
    pure (if id < 100000 then .plain (dummyElem id) else .oper id)

def opLinksSpec (j : Json) : J Json := do
  let ds ← (← asList (← fld j "d")).mapM fun x => do ddOfLabel (← asStr x)
  let vs ← (← asList (← fld j "v")).mapM valOfJson
  let cancels ← (← asList (fldD j "cancels" (jarr []))).mapM asNat
  let its := ds.zip vs
  pure (jobj [("l", jarr ((Spec.links its cancels).map fun (a, b) => jarr [jnat a, jnat b])),
              ("recalls_ok", Json.bool (Spec.recallsOk its)),
              ("complete", Json.bool (Spec.complete its cancels)),
              ("markers_ok", Json.bool (Spec.markersOk its))])

def opWfBitmap (st : DrvState) (j : Json) : J (DrvState × Json) := do
  let t ← getTemplate st j
  match t with
  | .error e => pure (st, errJson e)
  | .ok tmpl => pure (st, jobj [("wf", Json.bool (Spec.wfFlat (Spec.flatIds tmpl))), ("no235", Json.bool (Spec.no235 tmpl)),
      ("wflinks", Json.bool (Spec.wfL .idle tmpl)), ("nocancel", Json.bool (Spec.noCancelL tmpl))])

end Bufr.Drv
