import BufrModel.Lang.Script
import BufrModel.Spec.ScriptSegments
import BufrModel.Drv.JsonUtil
open Lean
namespace Bufr.Drv
open Bufr.Script

def jchars (s : List Char) : Json := jstr (String.ofList s)

def subsJson (subs : Subs) : Json := jarr (subs.map fun kv => jarr [jchars kv.1, jchars kv.2])

/-- `script`: preprocess a string; with the runner attributes (nest level from pragma / argument) -/
def opScript (j : Json) : J Json := do
  let s := (← asStr (← fld j "s")).toList
  let arg ← optNat (fldD j "arg" Json.null)
  let (code, subs) := preprocess s
  let runner : List (String × Json) :=
    match mkRunner s arg with
    | .ok r => [("level", jnat r.level), ("metadata_only", Json.bool r.metadataOnly),
                ("names", jarr ((boundNames r.subs).map jchars))]
    | .error e => [("level", jstr ("err:" ++ e.tag))]
  let kinds := subs.map fun kv => match dispatch kv.1 with
    | .ok .metadata => jstr "metadata" | .ok .data => jstr "data" | .error e => jstr ("err:" ++ e.tag)
  pure (jobj ([("code", jchars code), ("subs", subsJson subs), ("dispatch", jarr kinds),
               ("closed", Json.bool (closedScript s))] ++ runner))

def segOfJson (j : Json) : J Spec.Seg := do
  let a ← asList j
  let k ← asStr (← idx a 0)
  let s := (← asStr (← idx a 1)).toList
  match k with
  | "code" => pure (.code s)
  | "sq" => pure (.sq s)
  | "dq" => pure (.dq s)
  | "embed" => pure (.embed s)
  | "comment" => do pure (.comment s (← asBool (← idx a 2)))
  | _ => throw s!"bad segment kind {k}"

/-- `script-segs`: a segment list -> its text, whether it is well formed, the specification's expected
    result and the state machine's result on the assembled text -/
def opScriptSegs (j : Json) : J Json := do
  let segs ← (← asList (← fld j "segs")).mapM segOfJson
  let text := Spec.assemble segs
  let (ec, es) := Spec.expected segs
  let (mc, ms) := preprocess text
  pure (jobj [("text", jchars text), ("wf", Json.bool (Spec.wfList segs)),
              ("exp_code", jchars ec), ("exp_subs", subsJson es),
              ("code", jchars mc), ("subs", subsJson ms)])

/-- the `i`-th string of length `len` over `alpha` (most significant symbol first) -/
def nthScript (alpha : Array Char) (len : Nat) (i : Nat) : List Char :=
  let rec go : Nat → Nat → List Char → List Char
    | 0, _, acc => acc
    | k + 1, i, acc => go k (i / alpha.size) (alpha[i % alpha.size]! :: acc)
  go len i []

/-- canonical one-line rendering `code|k=v|k=v` (the separators are outside the enumeration alphabet) -/
def scriptRepr (r : List Char × Subs) : String :=
  String.ofList r.1 ++ String.join (r.2.map fun kv => "|" ++ String.ofList kv.1 ++ "=" ++ String.ofList kv.2)

/-- `script-enum`: strings of length `len` with index in [from, to), results joined by `;` -/
def opScriptEnum (j : Json) : J Json := do
  let alpha := (← asStr (← fld j "alphabet")).toList.toArray
  let len ← asNat (← fld j "len")
  let lo ← asNat (← fld j "from")
  let hi ← asNat (← fld j "to")
  let mut out : Array String := #[]
  let mut closed : Array Char := #[]
  for i in [lo:hi] do
    let s := nthScript alpha len i
    out := out.push (scriptRepr (preprocess s))
    closed := closed.push (if closedScript s then 'C' else 'O')
  pure (jobj [("res", jstr (String.intercalate ";" out.toList)), ("closed", jstr (String.ofList closed.toList))])

partial def qvalOfJson : Json → Val Json
  | .arr a => .list (a.toList.map qvalOfJson)
  | j => .atom j

partial def qvalToJson : Val Json → Json
  | .atom a => a
  | .list vs => jarr (vs.map qvalToJson)

/-- `flatten`: `q` = list of per-subset value lists (nested JSON arrays), `level` -/
def opFlatten (j : Json) : J Json := do
  let level ← asNat (← fld j "level")
  let q : QueryResult Json ← (← asList (← fld j "q")).mapM fun s => do
    pure ((← asList s).map qvalOfJson)
  let r : Json := match level with
    | 0 => match (flattenValues 0 q : Option Json) with | none => Json.null | some a => a
    | 1 => jarr (flattenValues 1 q : List Json)
    | 2 => jarr ((flattenValues 2 q : List (List Json)).map jarr)
    | n + 3 => jarr ((flattenValues (n + 3) q : List (List (Val Json))).map fun vs => jarr (vs.map qvalToJson))
  pure (jobj [("res", r)])

end Bufr.Drv
