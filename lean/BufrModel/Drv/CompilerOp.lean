/-
  Driver operations over the template-compiler model (C08):
    compile            {"ids":[..]}                                   -> {"prog": <to_dict rendering>, "closed": b}
    dec-data-compiled  as dec-data, optional "reload": true            -> as dec-data (through compile + exec [+ dump/load])
    enc-data-compiled  as enc-data, optional "reload": true            -> as enc-data
    cache              {"keys":[k,..],"max":n}                         -> {"steps":[{"hit":b,"keys":[oldest..newest]},..]}
  Rendering of the statement list: the dictionaries `to_dict` produces, the float `1.0*10**s` as {"pow10": s}.
-/
import BufrModel.Coder.Compiler
import BufrModel.Drv.CoderOp
open Lean
namespace Bufr.Drv

partial def jvToJson : JV → Json
  | .null => Json.null
  | .bool b => Json.bool b
  | .int i => jint i
  | .pow10 s => jobj [("pow10", jint s)]
  | .str s => jstr s
  | .arr l => jarr (l.map jvToJson)
  | .obj l => jobj (l.map fun (k, v) => (k, jvToJson v))

def opCompile (st : DrvState) (j : Json) : J (DrvState × Json) := do
  let t ← getTemplate st j
  match t with
  | .error e => pure (st, errJson e)
  | .ok tmpl =>
    match compile tmpl with
    | .error e => pure (st, jobj [("err", jstr e.tag), ("closed", Json.bool (scopeClosed tmpl)), ("loose", Json.bool (scopeClosedLoose tmpl))])
    | .ok prog => pure (st, jobj [("prog", jvToJson (dump prog)), ("closed", Json.bool (scopeClosed tmpl)), ("loose", Json.bool (scopeClosedLoose tmpl))])

/-- compile, and (with `reload`) go through `dump` / `load` -/
def getProg (st : DrvState) (j : Json) (tmpl : List Desc) : J (Except Err (List Stmt)) := do
  let reload ← asBool (fldD j "reload" (Json.bool false))
  match compile tmpl with
  | .error e => pure (.error e)
  | .ok prog => pure (if reload then load st.tables (dump prog) else .ok prog)

def opDecDataCompiled (st : DrvState) (j : Json) : J (DrvState × Json) := do
  let t ← getTemplate st j
  let compressed ← asBool (← fld j "compressed")
  let n ← asNat (← fld j "n")
  let bits ← strToBits (← asStr (← fld j "bits"))
  match t with
  | .error e => pure (st, errJson e)
  | .ok tmpl =>
    match ← getProg st j tmpl with
    | .error e => pure (st, errJson e)
    | .ok prog =>
      match decodeDataC prog compressed n bits with
      | .error e => pure (st, errJson e)
      | .ok (outs, rest) => pure (st, jobj [("subsets", jarr (outs.map subsetToJson)), ("rest", jnat rest.length)])

def opEncDataCompiled (st : DrvState) (j : Json) : J (DrvState × Json) := do
  let t ← getTemplate st j
  let compressed ← asBool (← fld j "compressed")
  let valss ← (← asList (← fld j "vals")).mapM fun l => do (← asList l).mapM valOfJson
  match t with
  | .error e => pure (st, errJson e)
  | .ok tmpl =>
    match ← getProg st j tmpl with
    | .error e => pure (st, errJson e)
    | .ok prog =>
      match encodeDataC prog compressed valss with
      | .error e => pure (st, errJson e)
      | .ok (outs, bits) => pure (st, jobj [("bits", jstr (bitsToStr bits)), ("subsets", jarr (outs.map subsetToJson))])

/-- the cache on abstract keys (naturals); the compiled value of key `k` is `k` itself -/
def opCompiledCache (st : DrvState) (j : Json) : J (DrvState × Json) := do
  let keys ← (← asList (← fld j "keys")).mapM asNat
  let cmax ← asNat (← fld j "max")
  let mut c : Cache Nat Nat := {}
  let mut steps : List Json := []
  for k in keys do
    let hit := (c.get? k).isSome
    let (v, c') := getOrCompile (fun k => k) cmax c k
    c := c'
    steps := jobj [("hit", Json.bool hit), ("value", jnat v), ("keys", jarr (c.entries.reverse.map fun p => jnat p.1))] :: steps
  pure (st, jobj [("steps", jarr steps.reverse)])

end Bufr.Drv
