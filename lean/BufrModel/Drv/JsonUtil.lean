/-
  Small JSON helpers for the model driver (core `Lean.Data.Json` only; no Mathlib).
-/
import Lean.Data.Json
open Lean
namespace Bufr.Drv

abbrev J := Except String

def fld (j : Json) (k : String) : J Json := j.getObjVal? k
def fldD (j : Json) (k : String) (d : Json) : Json := (j.getObjVal? k).toOption.getD d
def asArr (j : Json) : J (Array Json) := j.getArr?
def asList (j : Json) : J (List Json) := do return (← j.getArr?).toList
def asStr (j : Json) : J String := j.getStr?
def asInt (j : Json) : J Int := j.getInt?
def asNat (j : Json) : J Nat := do
  let i ← j.getInt?
  if i < 0 then throw s!"negative nat {i}" else return i.toNat
def asBool (j : Json) : J Bool :=
  match j with
  | .bool b => pure b
  | .num n => pure (n.mantissa != 0)
  | _ => throw "bool expected"
def isNull (j : Json) : Bool := match j with | .null => true | _ => false
def idx (a : List Json) (i : Nat) : J Json :=
  match a[i]? with | some x => pure x | none => throw s!"index {i} out of range"

def optNat (j : Json) : J (Option Nat) := if isNull j then pure none else some <$> asNat j
def optInt (j : Json) : J (Option Int) := if isNull j then pure none else some <$> asInt j

def jnat (n : Nat) : Json := Json.num (JsonNumber.fromNat n)
def jint (n : Int) : Json := Json.num (JsonNumber.fromInt n)
def jstr (s : String) : Json := Json.str s
def jarr (l : List Json) : Json := Json.arr l.toArray
def jobj (l : List (String × Json)) : Json := Json.mkObj l

def bitsToStr (bs : List Bool) : String := String.ofList (bs.map fun b => if b then '1' else '0')
def strToBits (s : String) : J (List Bool) :=
  s.toList.mapM fun c => if c == '1' then pure true else if c == '0' then pure false else throw s!"bad bit {c}"

def hexDigit (c : Char) : J Nat :=
  if '0' ≤ c ∧ c ≤ '9' then pure (c.toNat - '0'.toNat)
  else if 'a' ≤ c ∧ c ≤ 'f' then pure (c.toNat - 'a'.toNat + 10)
  else if 'A' ≤ c ∧ c ≤ 'F' then pure (c.toNat - 'A'.toNat + 10)
  else throw s!"bad hex {c}"

partial def hexToBytes (s : String) : J (List UInt8) :=
  let rec go : List Char → J (List UInt8)
    | [] => pure []
    | [_] => throw "odd hex"
    | a :: b :: r => do
      let x ← hexDigit a; let y ← hexDigit b
      let rest ← go r
      pure (UInt8.ofNat (16 * x + y) :: rest)
  go s.toList

def hexOfNibble (n : Nat) : Char := if n < 10 then Char.ofNat (n + 48) else Char.ofNat (n - 10 + 97)
def bytesToHex (b : List UInt8) : String :=
  String.ofList (b.flatMap fun x => [hexOfNibble (x.toNat / 16), hexOfNibble (x.toNat % 16)])

end Bufr.Drv
