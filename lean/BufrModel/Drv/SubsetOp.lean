/-
  Driver op `subset` (C10): one decoded message, several index collections.
  request : {"op":"subset","msg":[[{"name":..,"type":..,"value":..},..],..],"idxs":[[..],..]}
            value: a JSON integer -> `.int`; for type `template_data` a list of lists of cells
            -> `.data`; anything else is opaque JSON (`.other`)
  response: {"n": n_subsets or null, "wf": hypotheses hn/hwf of the theorems hold, "r":[ <encoder input as nested lists> | "err:<family>" ...],
             "sel":[ sorted distinct indices per collection (Spec) ]}
-/
import BufrModel.Msg.Subset
import BufrModel.Spec.SubsetSpec
import BufrModel.Drv.BitsOp
open Lean
namespace Bufr.Drv
open Bufr.Subset

def isIntJson (j : Json) : Option Int :=
  match j with
  | .num n => if n.exponent == 0 then some n.mantissa else none
  | _ => none

def parseParam (j : Json) : J (Param Json Json) := do
  let name ← asStr (← fld j "name")
  let type ← asStr (← fld j "type")
  let v ← fld j "value"
  if type == templateDataType then
    match v with
    | .arr rows =>
      let rs ← rows.toList.mapM asList
      pure { name, type, value := .data rs }
    | _ => pure { name, type, value := .other v }
  else
    match isIntJson v with
    | some n => pure { name, type, value := .int n }
    | none => pure { name, type, value := .other v }

def pvalJ : PVal Json Json → Json
  | .int n => jint n
  | .other v => v
  | .data rows => jarr (rows.map jarr)

def opSubset (j : Json) : J Json := do
  let secs ← asList (← fld j "msg")
  let m : Msg Json Json ← secs.mapM fun s => do (← asList s).mapM parseParam
  let colls ← asList (← fld j "idxs")
  let mut out : List Json := []
  let mut sels : List Json := []
  for c in colls do
    let idxs ← (← asList c).mapM asInt
    let r := match subset idxs m with
      | .ok inp => jarr (inp.map fun s => jarr (s.map pvalJ))
      | .error e => errJ e
    out := out ++ [r]
    sels := sels ++ [jarr ((Spec.sortedDistinct idxs).map jint)]
  let n := match m.nSubsets? with | some n => jint n | none => Json.null
  -- the hypotheses of the C10 theorems, evaluated on this message
  let wf := match m.nSubsets? with
    | some n => decide (0 ≤ n) && m.wf n.toNat
    | none => false
  pure (jobj [("n", n), ("wf", Json.bool wf), ("r", jarr out), ("sel", jarr sels)])

end Bufr.Drv
