/-
  Driver op `heap` (property C13): execute the HEAP model `Msg/Heap.lean` (`Heap.hStep`, the function the theorems of
  `Props/C13Heap.lean` are about, with no extra writes) on a history, next to the value model `Cache.step` run with the
  induced parameters, and report what the harness compares with the implementation:

    * the outcome class of every operation, on the heap and in the value model (`refines`: they agree on every operation),
    * the IDENTITY PATTERN of the per-subset descriptor lists / link dicts of the message object the operation leaves
      under its key ("shared": n references to one object, "separate": n objects, "single": fewer than two subsets),
    * `stable`: every cell reachable from a cache before the operation and still reachable after it shows the same
      object (what the implementation's digest audit checks on the real caches),
    * `sep`: the allocation bound of the invariant `Sep` (every reachable cell below `next`), evaluated,
    * the keys of the table-group cache.

  Request: the request of op `session` plus "shape":[[compressed,n],...] per input.
-/
import BufrModel.Msg.Heap
import BufrModel.Drv.SessionOp
open Lean
namespace Bufr.Drv
open Bufr.Cache Bufr.Heap

def heapParams (C : SessCfg) (shape : List (Bool × Nat)) (limit : Nat) : HParams Nat Nat Nat Nat Nat Nat where
  limit := limit
  cacheMax := fun c => (C.cacheMax[c]?).getD none
  header := fun _ m => match C.inputs[m]? with
    | some (some k, t, _) => .ok (k, [t])
    | _ => .error .lib
  loadFile := fun k =>
    if C.failLoad.contains k then .error .other
    else .ok ([(0, ⟨0, k, 0, 0⟩), (1, ⟨1, 8 + k, 0, 0⟩), (2, ⟨2, 7, 0, 0⟩)] ++
              (C.inputs.map fun x => (1000 + x.2.1, (⟨1000 + x.2.1, 1, 0, 0⟩ : DescV))).eraseDups,
             [(300001, [1, 2])])
  buildIds := fun g ids =>
    if C.failBuild.contains ((lookupD g.b 0).nbits, ids.headD 0) then .error .lib else .ok [1, 2, 1000 + ids.headD 0]
  compileIds := fun g t =>
    let ti := (t.getLastD default).id - 1000
    if C.failCompile.contains ((lookupD g.b 0).nbits, ti) then .error .lib else .ok ([1, 2], ti)
  decode := fun _ _ _ _ m =>
    if C.failData.contains m then .error .lib
    else
      let sh := (shape[m]?).getD (false, 1)
      .ok (sh.1, sh.2, fun i => ([.tab 1, .tab 2, .pseudo ⟨1, 9 + i, 0, 0⟩], [(2, 0)]), m)
  wireFn := fun d => if C.failWire.contains d.payload then .error .other else .ok [d.payload]
  view := fun v d _ => if C.failView.contains (v, d.payload) then .error .lib else .ok v

def heapOutTag : Out (MsgV Nat) Nat → String
  | .data d => s!"data:{d.payload}:{d.compressed}:{d.subsets.length}"
  | .done => "done"
  | .obs v => s!"obs:{v}"
  | .err _ => "err"

def objStr : HObj Nat Nat → String
  | .desc d => s!"desc {d.id} {d.nbits} {d.scale} {d.refval}"
  | .seq i ms => s!"seq {i} {repr ms}"
  | .group b d _ => s!"group {b} {d}"
  | .lst is => s!"lst {repr is}"
  | .links l => s!"links {l}"
  | .comp ds c => s!"comp {repr ds} {c}"
  | .msg c dl ld t p ns w => s!"msg {c} {dl} {ld} {t} {p} {ns} {w}"

def patOf (l : List Ref) : String :=
  if l.length < 2 then "single"
  else if l.all (· == l.headD 0) then "shared"
  else if l.eraseDups.length == l.length then "separate" else "mixed"

def opHeap (j : Json) : J Json := do
  let limit0 ← asNat (← fld j "limit")
  let cacheMax ← (← asList (← fld j "cache_max")).mapM optNat
  let inputs ← (← asList (← fld j "inputs")).mapM fun e => do
    let a ← asList e
    pure (← optNat (← idx a 0), ← asNat (← idx a 1), ← asBool (← idx a 2))
  let shape ← (← asList (fldD j "shape" (jarr []))).mapM fun e => do
    let a ← asList e
    pure (← asBool (← idx a 0), ← asNat (← idx a 1))
  let nats (k : String) : J (List Nat) := do (← asList (fldD j k (jarr []))).mapM asNat
  let C : SessCfg := { cacheMax := cacheMax, inputs := inputs, failLoad := ← nats "fail_load",
                       failBuild := ← pairs (fldD j "fail_build" (jarr [])), failCompile := ← pairs (fldD j "fail_compile" (jarr [])),
                       failData := ← nats "fail_data", failWire := ← nats "fail_wire",
                       failView := ← pairs (fldD j "fail_view" (jarr [])) }
  let dirOf (m : Nat) : Dir := match inputs[m]? with | some (_, _, true) => .encode | _ => .decode
  let coders := List.range cacheMax.length
  let W : Writes Nat Nat Nat Nat Nat := fun _ _ => []
  let mut limit := limit0
  let mut s : HState Nat Nat Nat Nat := HState.init
  let mut v : State Nat GroupV CompV Nat (MsgV Nat) Nat := State.init
  let mut outs : List Json := []
  let mut pats : List Json := []
  let mut stables : List Json := []
  let mut seps : List Json := []
  let mut tabs : List Json := []
  let mut refines := true
  let mut nobj := 0
  for e in (← asList (← fld j "ops")) do
    let a ← asList e
    let name ← asStr (← idx a 0)
    let H := heapParams C shape limit
    let before := (cacheFoot s coders).eraseDups.map fun x => (x, (view s.heap x).map objStr)
    let mut tag := "done"
    let mut pat : Json := Json.null
    let mop : Option (Op Nat Nat × Option (ObjKey Nat)) ← (match name with
      | "proc" => do
        let m ← asNat (← idx a 2)
        let c ← asNat (← idx a 1)
        pure (some (Op.proc c (dirOf m) m (← asBool (← idx a 3)), some (c, dirOf m, m)))
      | "wire" => do
        let m ← asNat (← idx a 2)
        let c ← asNat (← idx a 1)
        pure (some (Op.wire c (dirOf m) m, some (c, dirOf m, m)))
      | "view" => do
        let m ← asNat (← idx a 3)
        let c ← asNat (← idx a 2)
        pure (some (Op.view c (dirOf m) m (← asNat (← idx a 4)), some (c, dirOf m, m)))
      | "invalidate" => pure (some (Op.invalidate, none))
      | _ => pure none)
    match mop with
    | some (op, key) =>
      let r := hStep H W s op
      let rv := step H.toParams v op
      s := r.1
      v := rv.1
      tag := heapOutTag r.2
      if heapOutTag rv.2 != tag then refines := false
      match key with
      | some k =>
        if !r.2.isErr then
          match s.objs.lookup k with
          | some o => match s.heap.lookup o with
            | some (.msg _ dl ld _ _ _ _) => pat := jarr [jstr (patOf dl), jstr (patOf ld)]
            | _ => pure ()
          | none => pure ()
      | none => pure ()
    | none =>
      match name with
      | "limit" => limit ← asNat (← idx a 1)
      | "drop" =>
        let m ← asNat (← idx a 2)
        let c ← asNat (← idx a 1)
        s := { s with objs := s.objs.filter fun p => p.1 != (c, dirOf m, m) }
        v := { v with objs := v.objs.filter fun p => p.1 != (c, dirOf m, m) }
      | "dropall" =>
        s := { s with objs := [] }
        v := { v with objs := [] }
      | "tables" =>
        let k ← asNat (← idx a 1)
        let r := hStageTables H s k
        let rv := stageTables H.toParams v k
        s := r.1
        v := rv.1
        tag := match r.2 with | .ok _ => "done" | .error _ => "err"
      | _ => throw s!"bad heap op {name}"
    let after := cacheFoot s coders
    stables := Json.bool (before.all fun (x, o) => !after.contains x || (view s.heap x).map objStr == o) :: stables
    seps := Json.bool (((roots s coders).flatMap (footOf s.heap)).all (· < s.next)) :: seps
    outs := jstr tag :: outs
    pats := pat :: pats
    tabs := jarr (s.tables.keys.map jnat) :: tabs
    nobj := s.next
  pure (jobj [("out", jarr outs.reverse), ("pat", jarr pats.reverse), ("stable", jarr stables.reverse),
              ("sep", jarr seps.reverse), ("tables", jarr tabs.reverse), ("refines", Json.bool refines),
              ("cells", jnat nobj)])

end Bufr.Drv
