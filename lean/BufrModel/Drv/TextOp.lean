/-
  Driver operation over the text-format model (C09, View/Text.lean):

    text  {"probe":"spaces"} -> {"spaces":[code points for which the model's isPySpace holds]}
    text  {"probe":"splitlines","texts":[..]} -> {"lines":[pySplitlines(t) per text],"joined":[joinLines of them]}
    text  {"ids":[..],"compressed":b,"n":k,"bits":"0101..",
           "reprs":[[repr(value) per flat value] per subset],      -- Python's '{!r}' of the implementation's values
           "names":[[id,"name"],..], "flags":[ids of FLAG TABLE elements],
           "impl_flat":[lines]|null, "impl_nested":[lines]|null}   -- implementation text: template-data part and what follows
      -> {"flat_lines":[..], "nested_lines":[..]|{"err":..},
          "flat_lines_ok":b, "nested_lines_ok":b|null,        -- linesOK of the model's lines (join/splitlines safe)
          "len_ok":[b per subset], "side_ok":[b|null], "text_ok":[b|null],
          "flat_back_model":{"rest":n,"toks":[[..]]}|{"err":..},    -- model converter on the model's lines + section mark
          "nested_back_model":..,
          "flat_back_impl":..|null, "nested_back_impl":..|null}     -- model converter on the implementation's lines

  The value tokens are parameters of the model: `reprV` is instantiated with the table (model value -> Python
  repr string) built from "reprs", the tuple repr of a flag table value is composed as Python prints a tuple of
  an item and a list of ints.  The converters run with `ev` = identity on the token text: they return the text
  they would hand to `ast.literal_eval`, arranged as the code arranges the values; the harness evaluates it.
-/
import BufrModel.View.Text
import BufrModel.Drv.CoderOp
import BufrModel.Drv.ViewOp
import Std.Data.HashMap
open Lean
namespace Bufr.Drv

def valKey : Val → String
  | .missing => "n"
  | .int i => "i" ++ toString i
  | .num m s => "f" ++ toString m ++ "e" ++ toString s
  | .bytes b => "b" ++ bytesToHex b

def joinNat (l : List Nat) : String := ", ".intercalate (l.map toString)

def mkTextEnv (tab : Std.HashMap String String) (names : Std.HashMap Nat String) (flags : List Nat) : TextEnv :=
  let reprV : Val → Line := fun v => ((tab.get? (valKey v)).getD ("?" ++ valKey v)).toList
  { reprV := reprV
    reprFlag := fun v bits => ("(" ++ String.ofList (reprV v) ++ ", [" ++ joinNat bits ++ "])").toList
    name := fun id => ((names.get? id).getD "?").toList
    isFlag := fun id => flags.contains id }

def linesToJson (ls : List Line) : Json := jarr (ls.map fun l => jstr (String.ofList l))

def backToJson (r : CM (List Line × List (List String))) : Json :=
  match r with
  | .error e => errJson e
  | .ok (rest, data) => jobj [("rest", jnat rest.length), ("toks", jarr (data.map fun l => jarr (l.map jstr)))]

def evTok : Line → Option String := fun tok => some (String.ofList tok)

def optLines (j : Json) (k : String) : J (Option (List Line)) := do
  let v := fldD j k Json.null
  if isNull v then pure none
  else do
    let l ← asList v
    let ls ← l.mapM fun x => do pure (← asStr x).toList
    pure (some ls)

/-- {"op":"text","probe":"spaces"} -> the code points the model's `isPySpace` accepts -/
def spacesProbe : Json :=
  jarr (((List.range 0x110000).filter fun n => Nat.isValidChar n && isPySpace (Char.ofNat n)).map jnat)

def opText (st : DrvState) (j : Json) : J (DrvState × Json) := do
  if let .ok (.str "spaces") := j.getObjVal? "probe" then return (st, jobj [("spaces", spacesProbe)])
  if let .ok (.str "splitlines") := j.getObjVal? "probe" then
    let texts ← (← asList (← fld j "texts")).mapM asStr
    return (st, jobj [("lines", jarr (texts.map fun t => linesToJson (pySplitlines t.toList))),
                      ("joined", jarr (texts.map fun t => jstr (String.ofList (joinLines (pySplitlines t.toList)))))])
  let reprs ← (← asList (← fld j "reprs")).mapM fun s => do (← asList s).mapM asStr
  let names ← (← asList (← fld j "names")).mapM fun p => do
    let l ← asList p
    pure ((← asNat (← idx l 0)), (← asStr (← idx l 1)))
  let flags ← (← asList (← fld j "flags")).mapM asNat
  let implFlat ← optLines j "impl_flat"
  let implNested ← optLines j "impl_nested"
  let nameMap : Std.HashMap Nat String := names.foldl (fun m (k, v) => m.insert k v) {}
  withDecoded st j fun t c outs =>
    let tab : Std.HashMap String String :=
      (outs.zip reprs).foldl (fun m (o, rs) => (o.vals.zip rs).foldl (fun m (v, r) => m.insert (valKey v) r) m) {}
    let env := mkTextEnv tab nameMap flags
    let flatLines := flatTextLines env outs
    let trees := wireAll t c outs
    let nested : CM (List Line) := match trees with
      | .error e => .error e
      | .ok ts => nestedTextLines env outs ts
    let src (o : SubsetOut) : SubsetOut := if c then outs.headD o else o
    let perSubset (f : SubsetOut → Wired → Json) : Json :=
      jarr (outs.map fun o => match wireRaw t (src o) with
        | .ok w => f o w
        | .error _ => Json.null)
    let stop : Line := sectionMark ++ " section 5 >>>>>>".toList
    [("flat_lines", linesToJson flatLines),
     ("nested_lines", cmJson nested linesToJson),
     ("flat_lines_ok", Json.bool (linesOK (flatLines ++ [stop]))),
     ("nested_lines_ok", match nested with
        | .error _ => Json.null
        | .ok ls => Json.bool (linesOK (ls ++ [stop]))),
     ("len_ok", jarr (outs.map fun o => Json.bool (o.descs.length == o.vals.length))),
     ("side_ok", perSubset fun o w => Json.bool (w.sideOK o)),
     ("text_ok", perSubset fun o w => match w.tree with
        | .ok tree => Json.bool (textOKList o tree)
        | .error _ => Json.null),
     ("flat_back_model", backToJson (flatTextToFlat evTok id (flatLines ++ [stop]))),
     ("nested_back_model", match nested with
        | .error e => errJson e
        | .ok ls => backToJson (nestedTextToFlat evTok (ls ++ [stop]))),
     ("flat_back_impl", match implFlat with
        | none => Json.null
        | some ls => backToJson (flatTextToFlat evTok id ls)),
     ("nested_back_impl", match implNested with
        | none => Json.null
        | some ls => backToJson (nestedTextToFlat evTok ls))]

end Bufr.Drv
