/-
  Driver ops over `Msg/Sections.lean` and `Lang/MdQuery.lean`, on the layouts regenerated from /repo.

  values:  ["i",int] | ["b",bool] | ["bin","0101"] | ["hex","4255"] | ["d",[ids]] | ["data"]
  {"op":"msg-encode","sections":[[value,...],...],"payload":"0101","ignore_declared":true}
      -> {"hex":..,"trace":[[index,nbits],...]} | {"err":"err:.."}
  {"op":"msg-decode","hex":..,"data_bits":k,"info_only":false,"ignore_expect":false}
      -> {"sections":[{"index":i,"nbits":n,"params":[[name,value],...]}],"data":"0101"|null,"nbits":n,"serialized":hex}
         | {"err":"err:.."}
  {"op":"mdquery","exprs":[..], and either "sections":[{"index":i,"params":[[name,value],..]}] or the fields of msg-decode}
      -> {"res":[ ["ok",value|null] | "err:.." ...]} | {"err":..} when the decode fails
-/
import BufrModel.Msg.Sections
import BufrModel.Lang.MdQuery
import BufrModel.Gen.Layouts
import BufrModel.Drv.JsonUtil
import BufrModel.Drv.BitsOp
open Lean
namespace Bufr.Drv

def pvalOfJson (j : Json) : J PVal := do
  let a ← asList j
  let k ← asStr (← idx a 0)
  match k with
  | "i" => do pure (.int (← asInt (← idx a 1)))
  | "b" => do pure (.bool (← asBool (← idx a 1)))
  | "bin" => do pure (.bin (← strToBits (← asStr (← idx a 1))))
  | "hex" => do pure (.bytes (← hexToBytes (← asStr (← idx a 1))))
  | "d" => do pure (.descs (← (← asList (← idx a 1)).mapM asNat))
  | "data" => pure .data
  | _ => throw s!"bad value tag {k}"

def pvalToJson : PVal → Json
  | .int v => jarr [jstr "i", jint v]
  | .bool b => jarr [jstr "b", Json.bool b]
  | .bin bs => jarr [jstr "bin", jstr (bitsToStr bs)]
  | .bytes b => jarr [jstr "hex", jstr (bytesToHex b)]
  | .descs ids => jarr [jstr "d", jarr (ids.map jnat)]
  | .data => jarr [jstr "data"]

def optBool (j : Json) (k : String) (d : Bool) : J Bool :=
  match j.getObjVal? k with
  | .ok v => asBool v
  | .error _ => pure d

def opMsgEncode (j : Json) : J Json := do
  let secs ← (← asList (← fld j "sections")).mapM fun s => do (← asList s).mapM pvalOfJson
  let payload ← strToBits (← asStr (← fld j "payload"))
  let ign ← optBool j "ignore_declared" true
  match encode Gen.layouts { ignoreDeclared := ign } secs payload with
  | .error e => pure (jobj [("err", errJ e)])
  | .ok r => pure (jobj [("hex", jstr (bytesToHex r.bytes)),
      ("trace", jarr (r.trace.map fun (i, n) => jarr [jnat i, jnat n]))])

def secToJson (s : DecSection) : Json :=
  jobj [("index", jnat s.index), ("nbits", jnat s.nbits),
        ("params", jarr (s.params.map fun (n, v) => jarr [jstr n, pvalToJson v]))]

def runDecode (j : Json) : J (Except Err (DecMsg Bits)) := do
  let bytes ← hexToBytes (← asStr (← fld j "hex"))
  let k ← asNat (fldD j "data_bits" (jnat 0))
  let info ← optBool j "info_only" false
  let ign ← optBool j "ignore_expect" false
  pure (decode Gen.layouts (rawCoder k) { infoOnly := info, ignoreExpect := ign } bytes)

def opMsgDecode (j : Json) : J Json := do
  match ← runDecode j with
  | .error e => pure (jobj [("err", errJ e)])
  | .ok m => pure (jobj [("sections", jarr (m.sections.map secToJson)),
      ("data", match m.data with | none => Json.null | some b => jstr (bitsToStr b)),
      ("nbits", jnat m.nbits), ("serialized", jstr (bytesToHex m.serialized))])

def secOfJson (j : Json) : J DecSection := do
  let i ← asNat (← fld j "index")
  let ps ← (← asList (← fld j "params")).mapM fun p => do
    let a ← asList p
    pure ((← asStr (← idx a 0)), (← pvalOfJson (← idx a 1)))
  pure { index := i, params := ps, nbits := 0 }

def opMdQuery (j : Json) : J Json := do
  let exprs ← (← asList (← fld j "exprs")).mapM asStr
  let secs : Except Err (List DecSection) ←
    match j.getObjVal? "sections" with
    | .ok s => do pure (.ok (← (← asList s).mapM secOfJson))
    | .error _ => do pure ((← runDecode j).map (·.sections))
  match secs with
  | .error e => pure (jobj [("err", errJ e)])
  | .ok secs =>
    let res := exprs.map fun e =>
      match MdQuery.query secs e.toList with
      | .error err => errJ err
      | .ok none => jarr [jstr "ok", Json.null]
      | .ok (some v) => jarr [jstr "ok", pvalToJson v]
    pure (jobj [("res", jarr res)])

end Bufr.Drv
