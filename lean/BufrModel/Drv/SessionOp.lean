/-
  Driver op `session` (property C13): run a session of the model `Msg/Session.lean` - the functions executed are
  `Session.step` / `Session.pureOut` / `Session.failStage` themselves, the ones the theorems of
  `Props/C13Session.lean` are about - over small integer names, so that the harness can compare, operation by
  operation, with a real history on real Decoder / Encoder / renderer / querent objects:

    * the outcome of every operation (data / done / observation / error) and, for a decode / encode, the STAGE at
      which it fails (head, tables, template, compilation, data, wiring),
    * the keys held by the table-group cache and by the compiled-template cache of every coder object,
    * which message objects the caller holds and whether they are wired,
    * and the model's own refinement (`run = specRun`) on exactly this history.

  {"op":"session","limit":n,"cache_max":[null|n,...],
   "inputs":[[k|null,t,isEncoder],...],          per input: table group asked for (null: the head fails), template
   "fail_load":[k..],"fail_build":[[k,t]..],"fail_compile":[[k,t]..],"fail_data":[m..],"fail_wire":[m..],
   "fail_view":[[v,m]..],
   "ops":[["proc",c,m,wire]|["wire",c,m]|["view",r,c,m,v]|["drop",c,m]|["dropall"]|["invalidate"]|["limit",n]|["tables",k]]}
  -> {"out":[..],"spec":[..],"stage":[..],"tables":[[k..]..],"compiled":[[[t,k]..] per coder ..],"objs":[[[c,m,wired]..]..],
      "refines":bool}

  Which stage of which input fails is an INPUT of the model (the coder is abstract in it); what the model predicts
  is everything that follows from it for every later operation of the history.
-/
import BufrModel.Msg.Session
import BufrModel.Drv.JsonUtil
open Lean
namespace Bufr.Drv
open Bufr.Cache Bufr.Session

structure SessCfg where
  cacheMax : List (Option Nat)
  inputs : List (Option Nat × Nat × Bool)
  failLoad : List Nat
  failBuild : List (Nat × Nat)
  failCompile : List (Nat × Nat)
  failData : List Nat
  failWire : List Nat
  failView : List (Nat × Nat)

/-- group = its key; template = (group, template index); compiled template likewise; data = the input's index;
    one node per message; registers / scratch: a number the walk / view leave dirty -/
def sessParams (C : SessCfg) : Session.Params Nat Nat (Nat × Nat) (Nat × Nat) Nat Nat Nat Nat Nat Nat (Nat × Nat) where
  cacheMax := fun c => (C.cacheMax[c]?).getD none
  header := fun _ m => match C.inputs[m]? with
    | some (some k, t, _) => .ok (k, [t])
    | _ => .error .lib
  loadGroup := fun k => if C.failLoad.contains k then .error .other else .ok k
  build := fun g ids => if C.failBuild.contains (g, ids.headD 0) then .error .lib else .ok (g, ids.headD 0)
  compile := fun _ t => if C.failCompile.contains t then .error .lib else .ok t
  freshRegs := fun _ _ => 0
  walk := fun _ _ _ _ m r => (r + m + 1, if C.failData.contains m then .error .lib else .ok m)
  wireFn := fun d => if C.failWire.contains d then .error .other else .ok [d]
  viewerInit := 0
  view := fun v d _ s => (s + v + 1, if C.failView.contains (v, d) then .error .lib else .ok (v, d))

def outTag : Out Nat (Nat × Nat) → Json
  | .data d => jstr s!"data:{d}"
  | .done => jstr "done"
  | .obs (v, d) => jstr s!"obs:{v}:{d}"
  | .err _ => jstr "err"

def stageTag : Option Stage → Json
  | none => Json.null
  | some .header => jstr "header"
  | some .tables => jstr "tables"
  | some .build => jstr "build"
  | some .compile => jstr "compile"
  | some .data => jstr "data"
  | some .wire => jstr "wire"

def pairs (j : Json) : J (List (Nat × Nat)) := do
  (← asList j).mapM fun e => do
    let a ← asList e
    pure (← asNat (← idx a 0), ← asNat (← idx a 1))

def opSession (j : Json) : J Json := do
  let limit ← asNat (← fld j "limit")
  let cacheMax ← (← asList (← fld j "cache_max")).mapM optNat
  let inputs ← (← asList (← fld j "inputs")).mapM fun e => do
    let a ← asList e
    pure (← optNat (← idx a 0), ← asNat (← idx a 1), ← asBool (← idx a 2))
  let nats (k : String) : J (List Nat) := do (← asList (fldD j k (jarr []))).mapM asNat
  let C : SessCfg := { cacheMax := cacheMax, inputs := inputs, failLoad := ← nats "fail_load",
                       failBuild := ← pairs (fldD j "fail_build" (jarr [])), failCompile := ← pairs (fldD j "fail_compile" (jarr [])),
                       failData := ← nats "fail_data", failWire := ← nats "fail_wire",
                       failView := ← pairs (fldD j "fail_view" (jarr [])) }
  let P := sessParams C
  let dirOf (m : Nat) : Dir := match inputs[m]? with | some (_, _, true) => .encode | _ => .decode
  let ops ← (← asList (← fld j "ops")).mapM fun e => do
    let a ← asList e
    let name ← asStr (← idx a 0)
    match name with
    | "proc" => do
      let m ← asNat (← idx a 2)
      pure (Session.Op.proc (← asNat (← idx a 1)) (dirOf m) m (← asBool (← idx a 3)) : Session.Op Nat Nat Nat)
    | "wire" => do
      let m ← asNat (← idx a 2)
      pure (Session.Op.wire (← asNat (← idx a 1)) (dirOf m) m)
    | "view" => do
      let m ← asNat (← idx a 3)
      pure (Session.Op.view (← asNat (← idx a 1)) (← asNat (← idx a 2)) (dirOf m) m (← asNat (← idx a 4)))
    | "drop" => do
      let m ← asNat (← idx a 2)
      pure (Session.Op.drop (← asNat (← idx a 1)) (dirOf m) m)
    | "dropall" => pure Session.Op.dropAll
    | "invalidate" => pure Session.Op.invalidate
    | "limit" => do pure (Session.Op.setLimit (← asNat (← idx a 1)))
    | "tables" => do pure (Session.Op.tables (← asNat (← idx a 1)))
    | _ => throw s!"bad session op {name}"
  let mut s : Session.State Nat Nat (Nat × Nat) Nat Nat Nat Nat Nat := Session.State.init P limit
  let mut outs : List Json := []
  let mut specs : List Json := []
  let mut stages : List Json := []
  let mut tabs : List Json := []
  let mut comps : List Json := []
  let mut objs : List Json := []
  for op in ops do
    let lim := s.limit
    let r := Session.step P s op
    specs := outTag (Session.pureOut P lim op) :: specs
    stages := (match op with
      | .proc c dir m w => stageTag (Session.failStage P lim c dir m w)
      | _ => Json.null) :: stages
    s := r.1
    outs := outTag r.2 :: outs
    tabs := jarr (s.tables.keys.map jnat) :: tabs
    comps := jarr ((List.range cacheMax.length).map fun c =>
      jarr ((s.coders c).compiled.keys.map fun (ids, k) => jarr [jnat (ids.headD 0), jnat k])) :: comps
    -- the objects the caller holds: the newest entry per key
    let held := s.objs.foldl (fun (acc : List (ObjKey Nat × Obj Nat Nat)) p => if acc.any (fun q => q.1 = p.1) then acc else acc ++ [p]) []
    objs := jarr (held.map fun (k, o) => jarr [jnat k.1, jnat k.2.2, Json.bool o.isWired]) :: objs
  let whole := Session.run P (Session.State.init P limit) ops
  let refines := (whole.2.map outTag) == (Session.specRun P limit ops).map outTag
  pure (jobj [("out", jarr outs.reverse), ("spec", jarr specs.reverse), ("stage", jarr stages.reverse),
              ("tables", jarr tabs.reverse), ("compiled", jarr comps.reverse), ("objs", jarr objs.reverse),
              ("refines", Json.bool refines)])

end Bufr.Drv
