/-
  Driver operations of the C05 / C06 checks (data-section level):
    enc-data-widths {"ids":[..],"vals":[[..],..],"relative":b,"ks":[k,..]}
        -> compressed data bits with one increment-width request per column (Coder/EncodeWidths.lean)
    dec-subsets     {"ids":[..],"n":k,"bits":"0101.."}
        -> uncompressed data decoded subset by subset: per subset labels / values / links and the
           number of bits the subset consumed ("consumed"), bits left ("rest")
-/
import BufrModel.Coder.EncodeWidths
import BufrModel.Drv.CoderOp
open Lean
namespace Bufr.Drv

def opEncDataWidths (st : DrvState) (j : Json) : J (DrvState × Json) := do
  let t ← getTemplate st j
  let valss ← (← asList (← fld j "vals")).mapM fun l => do (← asList l).mapM valOfJson
  let relative ← asBool (fldD j "relative" (Json.bool true))
  let ks ← (← asList (← fld j "ks")).mapM asInt
  match t with
  | .error e => pure (st, errJson e)
  | .ok tmpl =>
    match Widths.encodeCompressedW tmpl valss relative ks with
    | .error e => pure (st, errJson e)
    | .ok (outs, bits) => pure (st, jobj [("bits", jstr (bitsToStr bits)), ("subsets", jarr (outs.map subsetToJson))])

/-- subsets one after the other, each from a fresh state, remembering how many bits each took -/
def decodeSubsetsCuts (tmpl : List Desc) : Nat → Bits → CM (List (SubsetOut × Nat) × Bits)
  | 0, bits => .ok ([], bits)
  | n + 1, bits => match decodeSubset tmpl bits with
    | .error e => .error e
    | .ok (o, rest) => match decodeSubsetsCuts tmpl n rest with
      | .error e => .error e
      | .ok (os, rest') => .ok ((o, bits.length - rest.length) :: os, rest')

def opDecSubsets (st : DrvState) (j : Json) : J (DrvState × Json) := do
  let t ← getTemplate st j
  let n ← asNat (← fld j "n")
  let bits ← strToBits (← asStr (← fld j "bits"))
  match t with
  | .error e => pure (st, errJson e)
  | .ok tmpl =>
    match decodeSubsetsCuts tmpl n bits with
    | .error e => pure (st, errJson e)
    | .ok (outs, rest) =>
      pure (st, jobj [("subsets", jarr (outs.map fun p => subsetToJson p.1)),
                      ("consumed", jarr (outs.map fun p => jnat p.2)),
                      ("rest", jnat rest.length)])

end Bufr.Drv
