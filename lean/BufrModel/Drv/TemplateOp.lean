/-
  Driver operations for C14 (template construction / Table D expansion / table selection).

  build       {"op":"build","ids":[..]}                      -> tree rendering, originalIds (both forms), flatMemberIds,
                                                              WellCounted, spec expansion
              optional "fix":true = `template_from_ids` in a process that holds in-stream extra entries
              (`TableDef.templateFromIds T true`: `_fix_ncep_descriptors` applied to the built tree; tree / orig / origq /
              flat are those of the repaired tree, "fixid" tells whether the repair left the tree unchanged);
              optional "leaves":true adds the Table B positions [id, kind, scale, ref, nbits] of the tree
  expand-row  {"op":"expand-row","id":n}                     -> flat ids of the built sequence, spec expansion, leaves
  expand-all  {"op":"expand-all"}                            -> per loaded Table D id: [id, status, n, digest(flat), spec = flat, digest(leaves)]
  tables-wf   {"op":"tables-wf"}                             -> decidable hypotheses of the C14 theorems on the loaded group
  normalize   {"op":"normalize","masters":[..],"dirs":[[m,c,s,v],..],"req":[mtn,c,s,mtv,ltv]}
-/
import BufrModel.Basic.Template
import BufrModel.Spec.FlatExpand
import BufrModel.Drv.State
import BufrModel.Msg.TableDef
open Lean
namespace Bufr.Drv

def kindCode : Kind → Nat
  | .numeric => 0 | .codeflag => 1 | .string => 2

mutual
partial def renderDesc : Desc → Json
  | .elem e => jarr [jstr "E", jnat e.id]
  | .undefElem i => jarr [jstr "UE", jnat i]
  | .undefSeq i => jarr [jstr "US", jnat i]
  | .op i => jarr [jstr "O", jnat i]
  | .seq i ms => jarr [jstr "S", jnat i, jarr (ms.map renderDesc)]
  | .fixedRep i ms => jarr [jstr "F", jnat i, jarr (ms.map renderDesc)]
  | .delayedRep i f ms => jarr [jstr "D", jnat i, renderDesc f, jarr (ms.map renderDesc)]
end

/-- [id, kind, scale, ref, nbits] of a Table B position; an undefined one is [id, 9, 0, 0, 0] -/
def leafAttrs : Desc → List Int
  | .elem e => [e.id, kindCode e.kind, e.scale, e.ref, e.nbits]
  | d => [d.id, 9, 0, 0, 0]

/-- order-sensitive digest of an integer list, reproduced verbatim on the Python side -/
def digestInts (l : List Int) : Nat :=
  l.foldl (fun h x => (h * 1000003 + (if x < 0 then 2 * x.natAbs + 1 else 2 * x.natAbs) + 7) % 2305843009213693951) 17

def errTag : Err → String := Err.tag

def jnats (l : List Nat) : Json := jarr (l.map jnat)
def jints (l : List Int) : Json := jarr (l.map jint)
def optNats : Option (List Nat) → Json
  | some l => jnats l
  | none => Json.null

def opBuild (st : DrvState) (j : Json) : J (DrvState × Json) := do
  let ids ← (← asList (← fld j "ids")).mapM asNat
  let T := st.tables
  let wc := Spec.WellCounted ids
  let spec := Spec.expand T defaultDepth ids
  let fix ← asBool (fldD j "fix" (Json.bool false))
  let wantLeaves ← asBool (fldD j "leaves" (Json.bool false))
  let out := match TableDef.templateFromIds T fix ids with
    | .error e => jobj [("err", jstr (errTag e)), ("wc", Json.bool wc), ("spec", optNats spec)]
    | .ok t => jobj ([("tree", jarr (t.map renderDesc)), ("orig", jnats (originalIds t)),
                     ("origq", jnats (originalIdsQ t)), ("flat", jnats (flatMemberIds t)),
                     ("wc", Json.bool wc), ("spec", optNats spec),
                     ("loose", optNats (Spec.loose T defaultDepth ids)),
                     ("fixid", Json.bool (match build T ids with
                        | .ok t0 => (t0.map renderDesc == t.map renderDesc) | .error _ => false))]
                    ++ (if wantLeaves then [("leaves", jarr ((leaves t).map fun d => jints (leafAttrs d)))] else []))
  pure (st, out)

def opExpandRow (st : DrvState) (j : Json) : J (DrvState × Json) := do
  let id ← asNat (← fld j "id")
  let T := st.tables
  let spec := Spec.expandRow T (defaultDepth - 1) id
  let out := match build T [id] with
    | .ok [.seq _ ms] =>
      jobj [("flat", jnats (flatMemberIds ms)), ("spec", optNats spec),
            ("leaves", jarr ((leaves ms).map fun d => jints (leafAttrs d))),
            ("ok", Json.bool (Spec.rowOK T defaultDepth id))]
    | .ok t => jobj [("other", jarr (t.map renderDesc)), ("spec", optNats spec)]
    | .error e => jobj [("err", jstr (errTag e)), ("spec", optNats spec)]
  pure (st, out)

def opExpandAll (st : DrvState) (_ : Json) : J (DrvState × Json) := do
  let T := st.tables
  let rows := st.dIds.map fun id =>
    let spec := Spec.expandRow T (defaultDepth - 1) id
    match build T [id] with
    | .ok [.seq _ ms] =>
      let flat := flatMemberIds ms
      let lv := (leaves ms).flatMap leafAttrs
      let lo := match T.d id with | some row => Spec.loose T (defaultDepth - 1) row | none => none
      jarr [jnat id, jstr "ok", jnat flat.length, jnat (digestInts (flat.map Int.ofNat)),
            Json.bool (spec == some flat), jnat (digestInts lv), jnat (leaves ms).length,
            Json.bool (lo == some flat)]
    | .ok _ => jarr [jnat id, jstr "notseq"]
    | .error e => jarr [jnat id, jstr (errTag e)]
  pure (st, jobj [("rows", jarr rows)])

/-- smallest `n ≤ bound` with `depthOK n id`, if any -/
def depthOf (T : Tables) (bound : Nat) (id : Nat) : Option Nat :=
  (List.range (bound + 1)).find? (fun n => Spec.depthOK T n id)

def opTablesWf (st : DrvState) (_ : Json) : J (DrvState × Json) := do
  let T := st.tables
  let keyed := (List.range 100000).all fun i => match T.b i with | some e => e.id == i | none => true
  let bad := st.dIds.filter fun id => !(Spec.rowOK T defaultDepth id)
  let illCounted := st.dIds.filter fun id => match T.d id with | some row => !(Spec.WellCounted row) | none => false
  let tooDeep := st.dIds.filter fun id => !(Spec.depthOK T defaultDepth id)
  let depths := st.dIds.filterMap (depthOf T 12)
  let maxDepth := depths.foldl max 0
  pure (st, jobj [("keyed", Json.bool keyed), ("n", jnat st.dIds.length), ("bad", jnats bad),
                  ("ill_counted", jnats illCounted), ("too_deep", jnats tooDeep),
                  ("max_depth", jnat maxDepth), ("depth_bound", jnat defaultDepth)])

def snJson (s : TablesSn) : Json := jnats [s.mtn, s.centre, s.sub, s.ver]
def optSn : Option TablesSn → Json
  | some s => snJson s
  | none => Json.null

def opNormalize (j : Json) : J Json := do
  let masters ← (← asList (← fld j "masters")).mapM asNat
  let dirs ← (← asList (← fld j "dirs")).mapM fun d => do
    let a ← (← asList d).mapM asNat
    match a with
    | [m, c, s, v] => pure (TablesSn.mk m c s v)
    | _ => throw "dir: 4 numbers expected"
  let req ← (← asList (← fld j "req")).mapM asNat
  match req with
  | [mtn, c, s, mtv, ltv] =>
    let (w, l) := normalizeTablesSn (fun n => masters.contains n) (fun sn => dirs.contains sn) mtn c s mtv ltv
    let (w0, l0) := getTablesSn mtn c s mtv ltv
    pure (jobj [("wmo", snJson w), ("local", optSn l), ("plain_wmo", snJson w0), ("plain_local", optSn l0)])
  | _ => throw "req: 5 numbers expected"

end Bufr.Drv
