/-
  Driver operation over the flat FM-94 reading (`Spec/FlatWalk.lean`):
    dec-data-flat {"ids":[..],"compressed":b,"n":k,"bits":"0101.."}
        -> as `dec-data` (subsets (labels, values, links), bits left — or {"err":family}), computed
           by `flatWalk` on the id list (no tree is built), plus
           "wf":     `WFflat tables defaultDepth ids`   (hypothesis of C01_flat_eq_tree: then the
                                                         result equals that of `dec-data`)
           "strict": `fm94Strict tables defaultDepth ids` (FM-94 well-formedness proper)
           "closed": `scopesClosed ids`
-/
import BufrModel.Spec.FlatWalk
import BufrModel.Drv.CoderOp
open Lean
namespace Bufr.Drv
open Bufr.Spec

def opDecDataFlat (st : DrvState) (j : Json) : J (DrvState × Json) := do
  let ids ← (← asList (← fld j "ids")).mapM asNat
  let compressed ← asBool (← fld j "compressed")
  let n ← asNat (← fld j "n")
  let bits ← strToBits (← asStr (← fld j "bits"))
  let flags : List (String × Json) :=
    [("wf", Json.bool (wfCount st.tables defaultDepth ids)),
     ("strict", Json.bool (fm94Strict st.tables defaultDepth ids)),
     ("closed", Json.bool (scopesClosed ids))]
  match flatDecodeData st.tables defaultDepth ids compressed n bits with
  | .error e => pure (st, jobj (("err", jstr e.tag) :: flags))
  | .ok (outs, rest) =>
    pure (st, jobj ([("subsets", jarr (outs.map subsetToJson)), ("rest", jnat rest.length)] ++ flags))

end Bufr.Drv
