import BufrModel.Basic.Bits
import BufrModel.Drv.JsonUtil
open Lean
namespace Bufr.Drv

def errJ (e : Err) : Json := jstr ("err:" ++ e.tag)

/-- one write op; returns new stream or error -/
def runW (w : Bits) (op : Json) : J (Except Err Bits) := do
  let a ← asList op
  let k ← asStr (← idx a 0)
  match k with
  | "u" => do let n ← asNat (← idx a 1); let v ← asInt (← idx a 2); pure (writeUInt w v n)
  | "i" => do let n ← asNat (← idx a 1); let v ← asInt (← idx a 2); pure (writeInt w v n)
  | "b" => do let b ← asBool (← idx a 1); pure (.ok (writeBool w b))
  | "bin" => do let bs ← strToBits (← asStr (← idx a 1)); pure (.ok (writeBin w bs))
  | "bytes" => do
      let k ← optNat (← idx a 1); let b ← hexToBytes (← asStr (← idx a 2))
      pure (.ok (writeBytes w b k))
  | "skip" => do let n ← asNat (← idx a 1); pure (skip w n)
  | "set" => do
      let v ← asInt (← idx a 1); let n ← asNat (← idx a 2); let p ← asNat (← idx a 3)
      pure (setUIntZ w v n p)
  | _ => throw s!"bad write op {k}"

def runR (bs : Bits) (op : Json) : J (Except Err (Json × Bits)) := do
  let a ← asList op
  let k ← asStr (← idx a 0)
  match k with
  | "u" => do let n ← asNat (← idx a 1); pure ((readUInt n bs).map fun (v, r) => (jnat v, r))
  | "un" => do
      let n ← asNat (← idx a 1)
      pure ((readUIntOrNone n bs).map fun (v, r) => ((match v with | none => Json.null | some x => jnat x), r))
  | "i" => do let n ← asNat (← idx a 1); pure ((readInt n bs).map fun (v, r) => (jint v, r))
  | "b" => pure ((readBool bs).map fun (v, r) => (Json.bool v, r))
  | "bin" => do let n ← asNat (← idx a 1); pure ((readBin n bs).map fun (v, r) => (jstr (bitsToStr v), r))
  | "bytes" => do let n ← asNat (← idx a 1); pure ((readBytes n bs).map fun (v, r) => (jstr (bytesToHex v), r))
  | _ => throw s!"bad read op {k}"

def opBits (j : Json) : J Json := do
  let wops ← asList (fldD j "w" (jarr []))
  let rops ← asList (fldD j "r" (jarr []))
  let mut w : Bits := []
  let mut wout : List Json := []
  let mut failed := false
  for op in wops do
    if failed then break
    match ← runW w op with
    | .ok w' => w := w'; wout := wout ++ [jnat w.length]
    | .error e => wout := wout ++ [errJ e]; failed := true
  let total := w.length
  let mut rest := w
  let mut rout : List Json := []
  let wfailed := failed
  failed := false
  for op in (if wfailed then [] else rops) do
    if failed then break
    match ← runR rest op with
    | .ok (v, r) => rest := r; rout := rout ++ [jarr [v, jnat (total - r.length)]]
    | .error e => rout := rout ++ [errJ e]; failed := true
  -- the stream after a refused write is not part of the observation
  pure (jobj [("w", jarr wout), ("bits", jstr (if wfailed then "" else bitsToStr w)), ("r", jarr rout)])

end Bufr.Drv
