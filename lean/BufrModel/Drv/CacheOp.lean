/-
  Driver op `cache` (property C13): run a history of cache operations over small integer keys and
  return the list of keys held after every operation, so that the harness can compare eviction order
  and contents with `TableGroupCache._groups` and `CompiledTemplateManager.cache`.

  {"op":"cache","kind":"tables"|"compiled","limit":n,"fail":[keys whose load/compile raises],
   "ops":[["get",k] | ["invalidate"] | ["limit",n]]}
  -> {"keys":[[...],...],"out":["ok"|"err:..."|"done",...]}

  The functions executed are `Cache.tableGet` / `Cache.compiledGet` themselves (the ones the theorems
  are about); a loaded value is the key itself.  `["limit",n]` changes the limit in mid-history (the
  module attribute can be reassigned at any time).
-/
import BufrModel.Msg.Cache
import BufrModel.Drv.JsonUtil
open Lean
namespace Bufr.Drv
open Bufr.Cache

def opCache (j : Json) : J Json := do
  let kind ← asStr (← fld j "kind")
  let limit0 ← asNat (← fld j "limit")
  let fail ← (← asList (fldD j "fail" (jarr []))).mapM asNat
  let ops ← asList (← fld j "ops")
  let load : Nat → Except Err Nat := fun k => if fail.contains k then .error .other else .ok k
  let mut d : Dict Nat Nat := []
  let mut limit := limit0
  let mut keys : List Json := []
  let mut outs : List Json := []
  for op in ops do
    let a ← asList op
    let name ← asStr (← idx a 0)
    match name with
    | "get" =>
      let k ← asNat (← idx a 1)
      let r ← (match kind with
        | "tables" => pure (tableGet limit load d k)
        | "compiled" => pure (compiledGet limit (load k) d k)
        | _ => throw s!"bad cache kind {kind}")
      d := r.1
      outs := (match r.2 with | .ok _ => jstr "ok" | .error e => jstr ("err:" ++ e.tag)) :: outs
    | "invalidate" =>
      d := []
      outs := jstr "done" :: outs
    | "limit" =>
      limit ← asNat (← idx a 1)
      outs := jstr "done" :: outs
    | _ => throw s!"bad cache op {name}"
    keys := jarr (d.keys.map jnat) :: keys
  pure (jobj [("keys", jarr keys.reverse), ("out", jarr outs.reverse)])

end Bufr.Drv
