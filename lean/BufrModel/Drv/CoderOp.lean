/-
  Driver operations over the coder model (data-section level):
    dec-data  {"ids":[..],"compressed":b,"n":k,"bits":"0101.."}      -> subsets (labels, values, links), bits left
    enc-data  {"ids":[..],"compressed":b,"vals":[[..],..]}            -> bits, labels/links per subset
    gen-data  {"ids":[..],"n":k,"shared":b,"rnd":"0101..","force":[[id,[v,..]],..]} -> value lists conforming to the template
  every op: optional "fix_ncep": true applies `_fix_ncep_descriptors` to the template (Msg/TableDef.lean)
  Values: null = missing | integer | {"m":m,"s":s} = m·10^(-s) | {"b":"hex"} = bytes.
-/
import BufrModel.Coder.Decode
import BufrModel.Coder.Encode
import BufrModel.Coder.Gen
import BufrModel.Drv.State
import BufrModel.Msg.TableDef
open Lean
namespace Bufr.Drv

def padNat (n width : Nat) : String :=
  let s := toString n
  String.ofList (List.replicate (width - s.length) '0') ++ s

def markerPrefix (opId : Nat) : String :=
  if opId = 223255 then "T" else if opId = 224255 then "F" else if opId = 225255 then "D"
  else if opId = 232255 then "R" else "M"

/-- `str(descriptor)` -/
def ddLabel : DDesc → String
  | .plain e => padNat e.id 6
  | .assoc id _ => "A" ++ padNat id 5
  | .skipped id _ => "S" ++ padNat id 5
  | .marker op e => markerPrefix op ++ padNat e.id 5
  | .oper id => padNat id 6

def valToJson : Val → Json
  | .missing => Json.null
  | .int i => jint i
  | .num m s => jobj [("m", jint m), ("s", jint s)]
  | .bytes b => jobj [("b", jstr (bytesToHex b))]

def valOfJson (j : Json) : J Val :=
  match j with
  | .null => pure .missing
  | .num _ => do pure (.int (← asInt j))
  | .obj _ =>
    match j.getObjVal? "b" with
    | .ok h => do pure (.bytes (← hexToBytes (← asStr h)))
    | .error _ => do pure (.num (← asInt (← fld j "m")) (← asInt (← fld j "s")))
  | _ => throw "bad value"

def subsetToJson (o : SubsetOut) : Json :=
  jobj [("d", jarr (o.descs.map fun d => jstr (ddLabel d))),
        ("v", jarr (o.vals.map valToJson)),
        ("l", jarr (o.links.map fun (a, b) => jarr [jnat a, jnat b]))]

def errJson (e : Err) : Json := jobj [("err", jstr e.tag)]

def getTemplate (st : DrvState) (j : Json) : J (Except Err (List Desc)) := do
  let ids ← (← asList (← fld j "ids")).mapM asNat
  -- "fix_ncep": `template_from_ids` when extra (in-stream) table entries exist (C20)
  let fix ← asBool (fldD j "fix_ncep" (Json.bool false))
  pure (TableDef.templateFromIds st.tables fix ids)

def opDecData (st : DrvState) (j : Json) : J (DrvState × Json) := do
  let t ← getTemplate st j
  let compressed ← asBool (← fld j "compressed")
  let n ← asNat (← fld j "n")
  let bits ← strToBits (← asStr (← fld j "bits"))
  match t with
  | .error e => pure (st, errJson e)
  | .ok tmpl =>
    match decodeData tmpl compressed n bits with
    | .error e => pure (st, errJson e)
    | .ok (outs, rest) => pure (st, jobj [("subsets", jarr (outs.map subsetToJson)), ("rest", jnat rest.length)])

def opEncData (st : DrvState) (j : Json) : J (DrvState × Json) := do
  let t ← getTemplate st j
  let compressed ← asBool (← fld j "compressed")
  let valss ← (← asList (← fld j "vals")).mapM fun l => do (← asList l).mapM valOfJson
  match t with
  | .error e => pure (st, errJson e)
  | .ok tmpl =>
    match encodeData tmpl compressed valss with
    | .error e => pure (st, errJson e)
    | .ok (outs, bits) => pure (st, jobj [("bits", jstr (bitsToStr bits)), ("subsets", jarr (outs.map subsetToJson))])

def opGenData (st : DrvState) (j : Json) : J (DrvState × Json) := do
  let t ← getTemplate st j
  let n ← asNat (← fld j "n")
  let shared ← asBool (← fld j "shared")
  let rnd ← strToBits (← asStr (← fld j "rnd"))
  let forced ← (← asList (fldD j "force" (jarr []))).mapM fun e => do
    let a ← asList e
    let id ← asNat (← idx a 0)
    let vs ← (← asList (← idx a 1)).mapM valOfJson
    pure (id, vs)
  match t with
  | .error e => pure (st, errJson e)
  | .ok tmpl =>
    match genSubsets tmpl shared n [] forced rnd with
    | .error e => pure (st, errJson e)
    | .ok vs => pure (st, jobj [("vals", jarr (vs.map fun l => jarr (l.map valToJson)))])

end Bufr.Drv
