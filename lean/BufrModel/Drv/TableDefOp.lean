/-
  Driver operations for C20 (in-stream table definitions):
    tabledef-extract {"ids":[..],"vals":[..]}   template built against the loaded tables, decoded values of the
                                                 single subset -> {"b":[[key,name,unit,scale,ref,width],..],
                                                 "d":[[key,name,[member,..]],..], "num": numeric entries | {"err"}}
    fix-ncep         {"ids":[..],"fix":b}        -> {"tree": rendering of template_from_ids (fix applied iff "fix")}
    build-src        {"ids":[..],"srcs":[[[id,[m,..]],..],..]}  by-source Table D resolution (oldest source first;
                                                 Table B from the loaded tables) -> {"tree": ..}
    tabledef-stream  {"msgs":[{"ids":[..],"compressed":b,"n":n,"bits":"01..","def":b},..],"compiled":b}
                                                 the whole stream run by `TableDef.specRun` (Msg/TableStream.lean) on the
                                                 loaded tables (= the table FILES of the one table group of the stream):
                                                 every message decoded with the files extended by the definitions the
                                                 model itself extracted from the definition messages ("def": data
                                                 category 11) before it -> {"out":[{"subsets":..,"rest":n}|{"err":..},..]}
                                                 (the list ends with the first error, as the generator does)
  `dec-data` / `enc-data` / `gen-data` take `"fix_ncep": true` (Drv/CoderOp.lean: getTemplate).
-/
import BufrModel.Msg.TableDef
import BufrModel.Msg.TableStream
import BufrModel.Coder.Compiler
import BufrModel.Drv.CoderOp
open Lean
namespace Bufr.Drv
namespace TD
open Bufr.TableDef Bufr.Drv

def jchars (s : List Char) : Json := jstr (String.ofList s)

partial def descToJson : Desc → Json
  | .elem e => jnat e.id
  | .undefElem i => jobj [("u", jnat i)]
  | .undefSeq i => jobj [("u", jnat i)]
  | .op i => jnat i
  | .fixedRep i ms => jobj [("r", jnat i), ("m", jarr (ms.map descToJson))]
  | .delayedRep i f ms => jobj [("r", jnat i), ("f", jnat f.id), ("m", jarr (ms.map descToJson))]
  | .seq i ms => jobj [("s", jnat i), ("m", jarr (ms.map descToJson))]

def kindStr : Kind → String
  | .numeric => "n" | .codeflag => "c" | .string => "s"

def entriesToJson (es : Entries) : Json :=
  jobj [("b", jarr (es.b.map fun (i, e) => jarr [jnat i, jstr (kindStr e.kind), jint e.scale, jint e.ref, jnat e.nbits])),
        ("d", jarr (es.d.map fun (i, ms) => jarr [jnat i, jarr (ms.map jnat)]))]

def opTableDefExtract (st : DrvState) (j : Json) : J (DrvState × Json) := do
  let ids ← (← asList (← fld j "ids")).mapM asNat
  let vals ← (← asList (← fld j "vals")).mapM valOfJson
  match build st.tables ids with
  | .error e => pure (st, errJson e)
  | .ok tmpl =>
    match extract tmpl vals with
    | .error e => pure (st, errJson e)
    | .ok (bs, ds) =>
      let num := match toEntries bs ds with
        | .error e => errJson e
        | .ok es => entriesToJson es
      pure (st, jobj [
        ("b", jarr (bs.map fun e => jarr [jchars e.key, jchars e.name, jchars e.unit, jint e.scale, jint e.ref, jint e.width])),
        ("d", jarr (ds.map fun e => jarr [jchars e.key, jchars e.name, jarr (e.members.map jchars)])),
        ("num", num)])

def opFixNcep (st : DrvState) (j : Json) : J (DrvState × Json) := do
  let ids ← (← asList (← fld j "ids")).mapM asNat
  let fix ← asBool (fldD j "fix" (Json.bool true))
  match templateFromIds st.tables fix ids with
  | .error e => pure (st, errJson e)
  | .ok t => pure (st, jobj [("tree", jarr (t.map descToJson))])

def opBuildSrc (st : DrvState) (j : Json) : J (DrvState × Json) := do
  let ids ← (← asList (← fld j "ids")).mapM asNat
  let srcsJ ← asList (← fld j "srcs")
  let mut srcs : List (Nat → Option (List Nat)) := []       -- most recent first
  for s in srcsJ do
    let mut hd : Std.HashMap Nat (List Nat) := {}
    for e in (← asList s) do
      let a ← asList e
      hd := hd.insert (← asNat (← idx a 0)) (← (← asList (← idx a 1)).mapM asNat)
    let h := hd
    srcs := (fun i => h.get? i) :: srcs
  match buildSrc st.tables.b srcs defaultDepth ids with
  | .error e => pure (st, errJson e)
  | .ok t => pure (st, jobj [("tree", jarr (t.map descToJson))])

/-- a message of the stream as the driver receives it -/
structure SMsg where
  ids : List Nat
  compressed : Bool
  n : Nat
  bits : Bits
  isDef : Bool

/-- decoded message: template, subsets, number of unread bits -/
abbrev SOut := List Desc × List SubsetOut × Nat

/-- the coder model as parameters of the stream loop; one table group (`Unit` key) whose files are `T` -/
def streamParams (T : Tables) (compiled : Bool) : StreamParams Unit SMsg SOut (List Desc) (List Stmt) where
  limit := 50
  cacheMax := if compiled then some 16 else none
  header := fun m => .ok ((), m.ids)
  files := fun _ => T
  template := templateFromIds
  compile := fun _ t => Bufr.compile t
  process := fun _ t c m =>
    match c with
    | none => (decodeData t m.compressed m.n m.bits).map fun (outs, rest) => (t, outs, rest.length)
    | some prog => (decodeDataC prog m.compressed m.n m.bits).map fun (outs, rest) => (t, outs, rest.length)
  defs := fun m r =>
    if m.isDef && 0 < m.n then
      some (match r.2.1 with
        | [] => .error .other
        | o :: _ => do
          let (bs, ds) ← extract r.1 o.vals
          toEntries bs ds)
    else none

def opTableDefStream (st : DrvState) (j : Json) : J (DrvState × Json) := do
  let compiled ← asBool (fldD j "compiled" (Json.bool false))
  let mut msgs : List SMsg := []
  for mj in (← asList (← fld j "msgs")) do
    let ids ← (← asList (← fld mj "ids")).mapM asNat
    let compressed ← asBool (← fld mj "compressed")
    let n ← asNat (← fld mj "n")
    let bits ← strToBits (← asStr (← fld mj "bits"))
    let isDef ← asBool (fldD mj "def" (Json.bool false))
    msgs := { ids := ids, compressed := compressed, n := n, bits := bits, isDef := isDef } :: msgs
  let outs := specRun (streamParams st.tables compiled) {} msgs.reverse
  pure (st, jobj [("out", jarr (outs.map fun o =>
    match o with
    | .error e => errJson e
    | .ok (_, subs, rest) => jobj [("subsets", jarr (subs.map subsetToJson)), ("rest", jnat rest)]))])

end TD
end Bufr.Drv
