/-
  Driver operation over the JSON text layer for character data (C09, View/JsonText.lean):

    jsontext {"items":[["<hex of the octets>", k], ..],       -- a character value and the width (octets) of its field
              "strings":[[code points], ..],                   -- arbitrary strings (json.dumps / json.loads of a str)
              "lits":["<text of a JSON string literal>", ..]}  -- arbitrary texts for the reader
      -> {"items":[{"lit":  text json.dumps(value, cls=EntityEncoder) writes (jsonTextOfBytes),
                    "back": hex of bytesOfJsonText lit | null,
                    "field": bits of Spec.fieldCode (.chars k) of the value read back | null,
                    "field_direct": bits of Spec.fieldCode (.chars k) of the octets themselves,
                    "utf8": text the refuted "UTF-8 when valid" serialiser would write,
                    "repr": reprBytes (the value token of the text formats), "repr_back": hex of evalBytesLiteral of it | null}, ..],
          "strings":[{"lit": jsonStringLiteral s, "back": [code points] | null}, ..],
          "lits":[[code points] | null, ..]}                   -- parseStringLiteral
-/
import BufrModel.View.JsonText
import BufrModel.Spec.CanonBits
import BufrModel.Drv.JsonUtil
open Lean
namespace Bufr.Drv

def optBits (o : Option Bits) : Json := match o with | some b => jstr (bitsToStr b) | none => Json.null
def cpsJson (o : Option (List Char)) : Json :=
  match o with | some s => jarr (s.map fun c => jnat c.toNat) | none => Json.null

def opJsonText (j : Json) : J Json := do
  let items ← (← asList (fldD j "items" (jarr []))).mapM fun it => do
    let l ← asList it
    let b ← hexToBytes (← asStr (← idx l 0))
    let k ← asNat (← idx l 1)
    let lit := jsonTextOfBytes b
    let back := bytesOfJsonText lit
    pure (jobj [("lit", jstr (String.ofList lit)),
                ("back", match back with | some x => jstr (bytesToHex x) | none => Json.null),
                ("field", optBits (back.bind fun x => Spec.fieldCode (.chars k) (.bytes x))),
                ("field_direct", optBits (Spec.fieldCode (.chars k) (.bytes b))),
                ("utf8", jstr (String.ofList (jsonStringLiteral (utf8WhenValid b)))),
                ("repr", jstr (String.ofList (reprBytes b))),
                ("repr_back", match evalBytesLiteral (reprBytes b) with | some x => jstr (bytesToHex x) | none => Json.null)])
  let strings ← (← asList (fldD j "strings" (jarr []))).mapM fun s => do
    let cps ← (← asList s).mapM asNat
    let str := cps.map Char.ofNat
    let lit := jsonStringLiteral str
    pure (jobj [("lit", jstr (String.ofList lit)), ("back", cpsJson (parseStringLiteral lit))])
  let lits ← (← asList (fldD j "lits" (jarr []))).mapM fun s => do
    pure (cpsJson (parseStringLiteral (← asStr s).toList))
  pure (jobj [("items", jarr items), ("strings", jarr strings), ("lits", jarr lits)])

end Bufr.Drv
