/-
  Driver operations over the view model (C09, C16):
    wire         {"ids":[..],"compressed":b,"n":k,"bits":"0101.."} -> {"subsets":[..dec-data..],"wire":[tree per subset] | {"err":..}}
    nested-json  same input -> {"nested":[nested JSON per subset] | {"err":..}}
    to-flat      same input -> {"flat":[[values] per subset] | {"err":..}}   (nested JSON -> flat)
  All three decode the data section with the coder model first (`decodeData`) and report `{"err":..}` when
  that fails.  Tree rendering: {"k":kind,"i":index[,"a":[attrs]]} | {"nv":id} | {"seq":id,"m":[..]} |
  {"fix":id,"n":n_members,"m":[..]} | {"del":id,"n":n_members,"f":{factor},"m":[..]}.
  Nested JSON: as the Python renderer emits it, without the `description` keys.
-/
import BufrModel.View.Wire
import BufrModel.View.NestedJson
import BufrModel.View.WireClass
import BufrModel.Drv.CoderOp
open Lean
namespace Bufr.Drv

def vkindStr : VKind → String
  | .value => "ValueData" | .assoc => "AssociatedField" | .firstOrder => "FirstOrderStats"
  | .difference => "DifferenceStats" | .substitution => "Substitution" | .replacement => "Replacement"
  | .quality => "QualityInfo"

partial def nodeToJson : Node → Json
  | .value k i attrs =>
    jobj ([("k", jstr (vkindStr k)), ("i", jnat i)] ++ (if attrs.isEmpty then [] else [("a", jarr (attrs.map nodeToJson))]))
  | .noval id => jobj [("nv", jstr (padNat id 6))]
  | .seq id ms => jobj [("seq", jstr (padNat id 6)), ("m", jarr (ms.map nodeToJson))]
  | .fixedRep id n ms => jobj [("fix", jstr (padNat id 6)), ("n", jnat n), ("m", jarr (ms.map nodeToJson))]
  | .delayedRep id n f ms =>
    jobj [("del", jstr (padNat id 6)), ("n", jnat n), ("f", nodeToJson f), ("m", jarr (ms.map nodeToJson))]

partial def njToJson : NJ → Json
  | .value lab v virt attrs =>
    jobj ([("id", jstr (ddLabel lab)), ("value", valToJson v)]
          ++ (if virt then [("virtual", Json.bool true)] else [])
          ++ (if attrs.isEmpty then [] else [("attributes", jarr (attrs.map njToJson))]))
  | .noval id => jobj [("id", jstr (padNat id 6))]
  | .group id factor members =>
    jobj ([("id", jstr (padNat id 6))]
          ++ (match factor with | f :: _ => [("factor", njToJson f)] | [] => [])
          ++ [("members", jarr (members.map njToJson))])
  | .arr l => jarr (l.map njToJson)

/-- decode, then hand the template and the subsets to `k` -/
def withDecoded (st : DrvState) (j : Json) (k : List Desc → Bool → List SubsetOut → List (String × Json)) :
    J (DrvState × Json) := do
  let t ← getTemplate st j
  let compressed ← asBool (← fld j "compressed")
  let n ← asNat (← fld j "n")
  let bits ← strToBits (← asStr (← fld j "bits"))
  match t with
  | .error e => pure (st, errJson e)
  | .ok tmpl =>
    match decodeData tmpl compressed n bits with
    | .error e => pure (st, errJson e)
    | .ok (outs, _) => pure (st, jobj (k tmpl compressed outs))

def cmJson {α : Type} (r : CM α) (f : α → Json) : Json :=
  match r with
  | .error e => errJson e
  | .ok a => f a

def opWire (st : DrvState) (j : Json) : J (DrvState × Json) :=
  withDecoded st j fun t c outs =>
    [("subsets", jarr (outs.map subsetToJson)),
     ("wire", cmJson (wireAll t c outs) fun trees => jarr (trees.map fun ns => jarr (ns.map nodeToJson)))]

/-- nested JSON of all subsets (`NestedJsonRenderer._render_template_data`) -/
def nestedAll (t : List Desc) (c : Bool) (outs : List SubsetOut) : CM (List (List NJ)) := do
  let trees ← wireAll t c outs
  (outs.zip trees).mapM fun (o, ns) => renderNested o ns

def opNestedJson (st : DrvState) (j : Json) : J (DrvState × Json) :=
  withDecoded st j fun t c outs =>
    [("nested", cmJson (nestedAll t c outs) fun subs => jarr (subs.map fun l => jarr (l.map njToJson)))]

def opToFlat (st : DrvState) (j : Json) : J (DrvState × Json) :=
  withDecoded st j fun t c outs =>
    [("flat", cmJson (nestedAll t c outs >>= nestedJsonToFlatAll) fun subs => jarr (subs.map fun l => jarr (l.map valToJson)))]

/-- everything at once (one decode): tree, nested JSON, nested JSON -> flat -/
def opViews (st : DrvState) (j : Json) : J (DrvState × Json) :=
  withDecoded st j fun t c outs =>
    [("subsets", jarr (outs.map subsetToJson)),
     ("wire", cmJson (wireAll t c outs) fun trees => jarr (trees.map fun ns => jarr (ns.map nodeToJson))),
     ("nested", cmJson (nestedAll t c outs) fun subs => jarr (subs.map fun l => jarr (l.map njToJson))),
     ("flat", cmJson (nestedAll t c outs >>= nestedJsonToFlatAll) fun subs => jarr (subs.map fun l => jarr (l.map valToJson))),
     -- the decidable side conditions of C09_nested_json_to_flat_partial, per subset (null when the pass fails)
     ("side_ok", jarr (outs.map fun o => match wireRaw t o with
        | .ok w => Json.bool (w.sideOK o)
        | .error _ => Json.null)),
     -- the template classes of the C09 link theorems (Props/C09.lean, C09Wire.lean): 0 = outside, 1 = quietList false,
     -- 2 = quietList true; and the class of Lemmas/WireSimLinks.lean
     ("quiet", jnat (if C09.quietList false t then 1 else if C09.quietList true t then 2 else 0)),
     ("wire_links_ok", Json.bool (C09.wireLinksOK t))]

end Bufr.Drv
