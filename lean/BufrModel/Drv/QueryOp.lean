/-
  Driver operations for C16 (data queries):
    query    {"ids":[..],"compressed":b,"n":k,"bits":"0101..","paths":["/301001/001001[0]", ..]}
             -> {"wire":"ok"|{"err":..}, "label_ok":b, "shape_ok":b,
                 "res":[{"parse":"ok"|{"err":..},
                         "q":[[i,[nested values]],..] | {"err":..},          model `query`
                         "spec":[[i,[nested values]],..] | {"err":..} | null  `Spec.evalPath` on the model's nested JSON
                        } per path]}
             (`spec` is null for a path with a `>` step or when the nested rendering fails)
    paths    {"ids":..,"compressed":..,"n":..,"bits":..,"depth":d[,"subsets":[i,..]]}
             -> {"paths":[".."]}  every child/attribute path that exists in the wired trees, up to depth d
    pyslice  {"a":x|null,"b":..,"c":..,"n":k} | {"idx":k,"n":k} -> {"idx":[..]}
-/
import BufrModel.View.Query
import BufrModel.Spec.EvalPath
import BufrModel.Drv.ViewOp
import Std.Data.HashSet
open Lean
namespace Bufr.Drv
open Bufr.Query Bufr.PathLang

partial def qvToJson : QV → Json
  | .val v => valToJson v
  | .list l => jarr (l.map qvToJson)

def subsetsJson (rs : List (Nat × List QV)) : Json :=
  jarr (rs.map fun (i, vs) => jarr [jnat i, jarr (vs.map qvToJson)])

def queryOne (m : QMsg) (nested : Option (List (List NJ))) (s : String) : Json :=
  match parse s.toList with
  | .error e => jobj [("parse", errJson e)]
  | .ok p =>
    let q := cmJson (query m p) fun r => subsetsJson r.subsets
    let spec : Json :=
      if !Spec.childAttrOnly p.comps then Json.null
      else match nested with
        | none => Json.null
        | some nj =>
          match subsetIndices p.subset m.outs.length with
          | .error e => errJson e
          | .ok sel => cmJson (Spec.evalPath nj sel p.comps) subsetsJson
    jobj [("parse", jstr "ok"), ("q", q), ("spec", spec)]

def opQuery (st : DrvState) (j : Json) : J (DrvState × Json) := do
  let paths ← (← asList (← fld j "paths")).mapM asStr
  withDecoded st j fun t c outs =>
    match mkMsg t c outs with
    | .error e => [("wire", errJson e)]
    | .ok m =>
      let nested := (Spec.nestedOf m).toOption       -- = `nestedAll t c outs` (the trees of `m` are `wireAll t c outs`)
      let labelOk := outs.all fun o => o.descs.all fun d => ddChars d == (ddLabel d).toList
      [("wire", jstr "ok"), ("label_ok", Json.bool labelOk), ("shape_ok", Json.bool (Spec.shapeOK m)),
       ("nested_ok", Json.bool nested.isSome),
       ("res", jarr (paths.map (queryOne m nested)))]

/-! ### enumeration of the paths that exist -/

def labelStr (o : SubsetOut) (n : Node) : String :=
  match nodeLabel o.descs n with
  | some l => String.ofList l
  | none => "?"

mutual
partial def pathsNode (o : SubsetOut) (depth : Nat) (pre : String) (sep : String) (n : Node)
    (acc : Std.HashSet String) : Std.HashSet String :=
  if depth = 0 then acc
  else
    let p := pre ++ sep ++ labelStr o n
    let acc := acc.insert p
    match n with
    | .value _ _ attrs => pathsList o (depth - 1) p "." attrs acc
    | .noval _ => acc
    | .seq _ ms => pathsList o (depth - 1) p "/" ms acc
    | .fixedRep _ _ ms => pathsList o (depth - 1) p "/" ms acc
    | .delayedRep _ _ f ms => pathsList o (depth - 1) p "/" ms (pathsNode o (depth - 1) p "." f acc)

partial def pathsList (o : SubsetOut) (depth : Nat) (pre : String) (sep : String) (ns : List Node)
    (acc : Std.HashSet String) : Std.HashSet String :=
  ns.foldl (fun acc n => pathsNode o depth pre sep n acc) acc
end

def opPaths (st : DrvState) (j : Json) : J (DrvState × Json) := do
  let depth ← asNat (← fld j "depth")
  let only ← match j.getObjVal? "subsets" with
    | .ok a => some <$> ((← asList a).mapM asNat)
    | .error _ => pure none
  withDecoded st j fun t c outs =>
    match mkMsg t c outs with
    | .error e => [("wire", errJson e)]
    | .ok m =>
      let idxs := match only with | some l => l | none => List.range m.outs.length
      let idxs := if c then idxs.take 1 else idxs
      let acc := idxs.foldl (fun acc i =>
        match m.outs[if c then 0 else i]?, m.trees[i]? with
        | some o, some tree => pathsList o depth "" "/" tree acc
        | _, _ => acc) (Std.HashSet.emptyWithCapacity 64)
      [("wire", jstr "ok"), ("paths", jarr (acc.toList.map jstr))]

def opPySlice (j : Json) : J Json := do
  let n ← asNat (← fld j "n")
  match j.getObjVal? "idx" with
  | .ok k => do
    let k ← asInt k
    pure (jobj [("idx", jarr ((pySlice (.idx k) n).map jnat))])
  | .error _ => do
    let a ← optInt (fldD j "a" Json.null)
    let b ← optInt (fldD j "b" Json.null)
    let c ← optInt (fldD j "c" Json.null)
    pure (jobj [("idx", jarr ((pySlice (.range a b c) n).map jnat)),
                ("step_zero", Json.bool (Slice.stepZero (.range a b c)))])

end Bufr.Drv
