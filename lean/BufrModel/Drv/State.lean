/-
  Driver state: the table group loaded by the last `tables` request.
  {"op":"tables","b":[[id,kind,scale,ref,nbits],...],"d":[[id,[member ids]],...]}
     kind: "n" numeric | "c" code/flag | "s" string
-/
import Std.Data.HashMap
import BufrModel.Basic.Desc
import BufrModel.Drv.JsonUtil
open Lean
namespace Bufr.Drv

structure DrvState where
  tables : Tables := { b := fun _ => none, d := fun _ => none }
  nB : Nat := 0
  nD : Nat := 0
  dIds : List Nat := []

def kindOfStr (s : String) : J Kind :=
  match s with
  | "n" => pure .numeric | "c" => pure .codeflag | "s" => pure .string
  | _ => throw s!"bad kind {s}"

def opTables (st : DrvState) (j : Json) : J (DrvState × Json) := do
  let bs ← asList (← fld j "b")
  let ds ← asList (← fld j "d")
  let mut hb : Std.HashMap Nat Elem := {}
  for e in bs do
    let a ← asList e
    let id ← asNat (← idx a 0)
    let k ← kindOfStr (← asStr (← idx a 1))
    let scale ← asInt (← idx a 2)
    let ref ← asInt (← idx a 3)
    let nbits ← asNat (← idx a 4)
    hb := hb.insert id { id := id, kind := k, nbits := nbits, scale := scale, ref := ref }
  let mut hd : Std.HashMap Nat (List Nat) := {}
  let mut dIds : List Nat := []
  for e in ds do
    let a ← asList e
    let id ← asNat (← idx a 0)
    let ms ← (← asList (← idx a 1)).mapM asNat
    hd := hd.insert id ms
    dIds := id :: dIds
  let T : Tables := { b := fun i => hb.get? i, d := fun i => hd.get? i }
  pure ({ st with tables := T, nB := hb.size, nD := hd.size, dIds := dIds.reverse },
        jobj [("b", jnat hb.size), ("d", jnat hd.size)])

end Bufr.Drv
