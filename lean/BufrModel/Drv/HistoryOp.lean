/-
  Driver operation for the parser OBJECT (`Lang/PathParserObj.lean`), used by the history part of C16 / C15:
    parser-history  {"exprs":["/001001[1:", "/001001", ..][, "reset":"keep-elems"]}
                    -> {"res":[{"parse": canonical result as op `path`, "left":"<state>/<buffered slice elements>",
                                "pos":k, "token":".."} per expression]}
  The expressions are given one after the other to ONE object (`parseObj` threaded through the list).
-/
import BufrModel.Lang.PathParserObj
import BufrModel.Drv.PathOp
open Lean
namespace Bufr.Drv
open Bufr.PathLang

/-- the constants `STATE_*` of dataquery.py (`''` written `start`) -/
def stateName : PState → String
  | .startParsing => "start"
  | .startSubset => "@"
  | .subsetSlice0 => "@["
  | .subsetSliceX => "@:"
  | .stopSubsetSlice => "@]"
  | .startId => "i"
  | .slice0 => "["
  | .sliceX => ":"
  | .stopSlice => "]"

def opParserHistory (j : Json) : J Json := do
  let exprs ← (← asList (← fld j "exprs")).mapM asStr
  let reset : PObj → PObj := match j.getObjVal? "reset" with
    | .ok (Json.str "keep-elems") => PObj.resetKeepElems
    | _ => PObj.reset
  let mut o : PObj := {}
  let mut out : Array Json := #[]
  for e in exprs do
    let (r, o') := parseObj reset o e.toList
    o := o'
    out := out.push (jobj [("parse", jstr (resRepr r)),
                           ("left", jstr s!"{stateName o.ps.st}/{o.ps.elems.length}"),
                           ("pos", jnat o.pos), ("token", jstr (String.ofList o.ps.token))])
  pure (jobj [("res", jarr out.toList)])

end Bufr.Drv
