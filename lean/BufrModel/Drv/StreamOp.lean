/-
  Driver op over `Msg/Stream.lean` with the section model and the real data coder (tables of the last
  `tables` request).

  {"op":"scan","hex":..,"info_only":b,"continue":b,"ignore_expect":b,
   "filter": null | [[mdexpr, op, int], ...],        -- conjunction, evaluated left to right; op in == != < <= > >=
   "fexpr": null | tree}                             -- general filter (Lang/FilterExpr.lean); takes precedence
     tree = ["q", mdexpr] | ["c", const] | ["cmp", op, tree, tree] | ["not", tree] | ["and", tree, tree]
          | ["or", tree, tree] | ["inlits", tree, [const, ...], negated] | ["in", tree, tree, negated]
          | ["isnone", tree, negated]
     const = ["n"] | ["i", int] | ["b", bool] | ["s", str] | ["x", hex] | ["l", [int, ...]]
     -> {"items":[[offset, nbytes, info_span], ...], "outcome":"done"|"loops"|"err:.."}
  `info_span` is the length of the bytes the decoder itself reported (`consumed`).
-/
import BufrModel.Msg.Stream
import BufrModel.Lang.MdQuery
import BufrModel.Lang.FilterExpr
import BufrModel.Gen.Layouts
import BufrModel.Drv.State
import BufrModel.Drv.SectionsOp
open Lean
namespace Bufr.Drv
open Bufr.Stream

structure Clause where
  expr : String
  op : String
  const : Int

/-- Python comparison of a queried metadata value with an int constant: bools are ints, `None`
    and other types are unequal to everything and not orderable (TypeError) -/
def evalClause (secs : List DecSection) (c : Clause) : Except Err Bool :=
  match MdQuery.query secs c.expr.toList with
  | .error e => .error e
  | .ok v =>
    let iv : Option Int := match v with
      | some (.int x) => some x
      | some (.bool b) => some (if b then 1 else 0)
      | _ => none
    match iv, c.op with
    | some x, "==" => .ok (x == c.const)
    | some x, "!=" => .ok (x != c.const)
    | some x, "<" => .ok (x < c.const)
    | some x, "<=" => .ok (x ≤ c.const)
    | some x, ">" => .ok (x > c.const)
    | some x, ">=" => .ok (x ≥ c.const)
    | none, "==" => .ok false
    | none, "!=" => .ok true
    | _, _ => .error .other

/-- all queries are made before the expression is evaluated (`prepare_variables`), then `and`
    short-circuits -/
def evalFilter (cs : List Clause) (m : MsgInfo (DecMsg (List SubsetOut))) : Except Err Bool :=
  match cs.mapM (fun c => (MdQuery.query m.msg.sections c.expr.toList).map fun _ => ()) with
  | .error e => .error e
  | .ok _ =>
    let rec go : List Clause → Except Err Bool
      | [] => .ok true
      | c :: rest =>
        match evalClause m.msg.sections c with
        | .error e => .error e
        | .ok false => .ok false
        | .ok true => go rest
    go cs

def pyValOfJson (j : Json) : J FilterExpr.PyVal := do
  let a ← asList j
  match ← asStr (← idx a 0) with
  | "n" => pure .none
  | "i" => pure (.int (← asInt (← idx a 1)))
  | "b" => pure (.bool (← asBool (← idx a 1)))
  | "s" => pure (.str (← asStr (← idx a 1)).toList)
  | "x" => pure (.bytes (← hexToBytes (← asStr (← idx a 1))))
  | "l" => pure (.ints (← (← asList (← idx a 1)).mapM asInt))
  | k => throw s!"bad constant kind {k}"

partial def fexprOfJson (j : Json) : J FilterExpr.FExpr := do
  let a ← asList j
  match ← asStr (← idx a 0) with
  | "q" => pure (.q (← asStr (← idx a 1)))
  | "c" => pure (.lit (← pyValOfJson (← idx a 1)))
  | "cmp" => pure (.cmp (← asStr (← idx a 1)) (← fexprOfJson (← idx a 2)) (← fexprOfJson (← idx a 3)))
  | "not" => pure (.neg (← fexprOfJson (← idx a 1)))
  | "and" => pure (.conj (← fexprOfJson (← idx a 1)) (← fexprOfJson (← idx a 2)))
  | "or" => pure (.disj (← fexprOfJson (← idx a 1)) (← fexprOfJson (← idx a 2)))
  | "inlits" => pure (.inLits (← fexprOfJson (← idx a 1)) (← (← asList (← idx a 2)).mapM pyValOfJson) (← asBool (← idx a 3)))
  | "in" => pure (.isIn (← fexprOfJson (← idx a 1)) (← fexprOfJson (← idx a 2)) (← asBool (← idx a 3)))
  | "isnone" => pure (.isNone (← fexprOfJson (← idx a 1)) (← asBool (← idx a 2)))
  | k => throw s!"bad filter node {k}"

def outcomeStr : Outcome → String
  | .done => "done"
  | .loops => "loops"
  | .error e => "err:" ++ e.tag

/-- `data_category == DATA_CATEGORY_DEFINE_BUFR_TABLES and n_subsets > 0` on the decode in hand (repair F25) -/
def isTableDefMsg (m : MsgInfo (DecMsg (List SubsetOut))) : Bool :=
  match (m.msg.sections.findSome? (fun s => s.params.lookup "data_category") : Option PVal),
        (m.msg.sections.findSome? (fun s => s.params.lookup "n_subsets") : Option PVal) with
  | some (PVal.int c), some (PVal.int n) => c == 11 && n > 0
  | _, _ => false

def opScan (st : DrvState) (j : Json) : J (DrvState × Json) := do
  let bytes ← hexToBytes (← asStr (← fld j "hex"))
  let info ← optBool j "info_only" false
  let cont ← optBool j "continue" false
  let ign ← optBool j "ignore_expect" false
  let fj := fldD j "filter" Json.null
  let filt : Option (List Clause) ←
    if isNull fj then pure none
    else do
      let cs ← (← asList fj).mapM fun c => do
        let a ← asList c
        pure { expr := (← asStr (← idx a 0)), op := (← asStr (← idx a 1)), const := (← asInt (← idx a 2)) : Clause }
      pure (some cs)
  let fej := fldD j "fexpr" Json.null
  let fe : Option FilterExpr.FExpr ← if isNull fej then pure none else some <$> fexprOfJson fej
  let pred : Option (MsgInfo (DecMsg (List SubsetOut)) → Except Err Bool) :=
    match fe with
    | some e => some fun m => FilterExpr.run e m.msg.sections
    | none => filt.map evalFilter
  let cfg : Cfg (DecMsg (List SubsetOut)) :=
    { infoOnly := info, continueOnError := cont, filter := pred, tableDef := isTableDefMsg }
  let (items, out) := scan (ofSections Gen.layouts (tableCoder st.tables) ign) cfg bytes
  pure (st, jobj [("items", jarr (items.map fun it => jarr [jnat it.offset, jnat it.bytes.length, jnat it.info.consumed])),
                  ("outcome", jstr (outcomeStr out))])

end Bufr.Drv
