/-
  Driver operation `col-parse` (C02 oracle): the RAW structure of every column of a compressed data
  section, read field by field with the plain bit readers (no interpretation of missing values, no
  reconstruction), in template order:

    col-parse {"ids":[..],"n":k,"bits":"0101.."}
      -> {"cols":[ {"k":"n"|"c"|"s"|"r","w":width,"i":value index,"scale":s,"ref":r,"min":raw|"hex","nd":d,"diffs":[raw..|"hex"..]} ..],
          "rest":bits left}

  k = n (numeric: w bits, value = (raw + ref)/10^scale), c (code/flag, associated, skipped field),
  s (character field: w BYTES, nd in bytes, min/diffs as hex), r (new reference value: sign+magnitude).
  The walk itself (which fields exist, their widths under the operators in force, replication
  factors) is the decoder's: each primitive first records the raw column found at the head of the
  stream and then runs the decoder primitive.  The log is kept in `St.forced` (unused when decoding):
  one entry per column, most recent first, `(tag, fields)` with tag = kind + 4·width.
-/
import BufrModel.Coder.Decode
import BufrModel.Drv.CoderOp
open Lean
namespace Bufr.ColParse

/-- `n` raw unsigned fields of `nd` bits -/
def rawFields (nd : Nat) : Nat → R (List Nat)
  | 0 => fun bs => .ok ([], bs)
  | n + 1 => fun bs =>
    match readUInt nd bs with
    | .error e => .error e
    | .ok (d, r) => match rawFields nd n r with
      | .error e => .error e
      | .ok (ds, r') => .ok (d :: ds, r')

/-- minimum (w bits), width (6 bits), then `n` increments when the width is not zero -/
def rawIntColumn (w n : Nat) : R (List Nat) := fun bs =>
  match readUInt w bs with
  | .error e => .error e
  | .ok (mn, r) =>
    match readUInt 6 r with
    | .error e => .error e
    | .ok (nd, r') =>
      if nd = 0 then .ok ([mn, nd], r')
      else match rawFields nd n r' with
        | .error e => .error e
        | .ok (ds, r'') => .ok (mn :: nd :: ds, r'')

def rawByteFields (nd : Nat) : Nat → R (List (List UInt8))
  | 0 => fun bs => .ok ([], bs)
  | n + 1 => fun bs =>
    match readBytes nd bs with
    | .error e => .error e
    | .ok (d, r) => match rawByteFields nd n r with
      | .error e => .error e
      | .ok (ds, r') => .ok (d :: ds, r')

def rawStringColumn (nbytes n : Nat) : R (List Val) := fun bs =>
  match readBytes nbytes bs with
  | .error e => .error e
  | .ok (mn, r) =>
    match readUInt 6 r with
    | .error e => .error e
    | .ok (nd, r') =>
      if nd = 0 then .ok ([.bytes mn, .int 0], r')
      else match rawByteFields nd n r' with
        | .error e => .error e
        | .ok (ds, r'') => .ok (.bytes mn :: .int nd :: ds.map Val.bytes, r'')

def St.log (s : St) (kind w idx : Nat) (fields : List Val) : St :=
  { s with forced := (kind + 4 * w, .int idx :: fields) :: s.forced }

def peek {α : Type} (s : St) (r : R α) : CM α :=
  match r s.bits with
  | .error e => .error e
  | .ok (a, _) => .ok a

def numericP (dd : DDesc) (nbits scale ref : Int) (s : St) : CM St := do
  let w ← natWidth nbits
  let raw ← peek s (rawIntColumn w s.vals.length)
  let s' ← decNumericC dd nbits scale ref s
  pure (St.log s' 0 w s.descs.length (.int scale :: .int ref :: raw.map fun (x : Nat) => Val.int (x : Int)))

def codeflagP (dd : DDesc) (nbits : Nat) (s : St) : CM St := do
  let raw ← peek s (rawIntColumn nbits s.vals.length)
  let s' ← decCodeflagC dd nbits s
  pure (St.log s' 1 nbits s.descs.length (raw.map fun (x : Nat) => Val.int (x : Int)))

def stringP (dd : DDesc) (nbytes : Nat) (s : St) : CM St := do
  let raw ← peek s (rawStringColumn nbytes s.vals.length)
  let s' ← decStringC dd nbytes s
  pure (St.log s' 2 nbytes s.descs.length raw)

def newRefvalP (e : Elem) (nbits : Nat) (s : St) : CM St := do
  let raw ← peek s (fun bs => match readBits 1 bs with
    | .error e => .error e
    | .ok (sg, r) => match readUInt (nbits - 1) r with
      | .error e => .error e
      | .ok (m, r') => match readUInt 6 r' with
        | .error e => .error e
        | .ok (nd, r'') => .ok ([ofBits sg, m, nd], r''))
  let s' ← decNewRefvalC e nbits s
  pure (St.log s' 3 nbits s.descs.length (raw.map fun (x : Nat) => Val.int (x : Int)))

def prims : Prims where
  numeric := numericP
  string := stringP
  codeflag := codeflagP
  newRefval := newRefvalP
  constant := decConstant
  factorValue := decFactorC
  lastValues := decLastValuesC

end Bufr.ColParse

namespace Bufr.Drv
open Bufr.ColParse

def rawToJson : Val → Json
  | .int i => jint i
  | .bytes b => jstr (bytesToHex b)
  | _ => Json.null

def colToJson (c0 : Nat × List Val) : Json :=
  let kind := c0.1 % 4
  let w := c0.1 / 4
  let ix : Json := rawToJson (c0.2.headD (.int 0))
  let c : Nat × List Val := (c0.1, c0.2.drop 1)
  let (hdr, fields) : List (String × Json) × List Val :=
    if kind = 0 then
      match c.2 with
      | sc :: rf :: rest => ([("scale", rawToJson sc), ("ref", rawToJson rf)], rest)
      | l => ([], l)
    else ([], c.2)
  let k := if kind = 0 then "n" else if kind = 1 then "c" else if kind = 2 then "s" else "r"
  if kind = 3 then
    jobj ([("k", jstr k), ("w", jnat w), ("i", ix), ("raw", jarr (fields.map rawToJson))])
  else
    match fields with
    | mn :: nd :: ds =>
      jobj ([("k", jstr k), ("w", jnat w), ("i", ix)] ++ hdr ++
        [("min", rawToJson mn), ("nd", rawToJson nd), ("diffs", jarr (ds.map rawToJson))])
    | _ => jobj [("k", jstr "?")]

def opColParse (st : DrvState) (j : Json) : J (DrvState × Json) := do
  let t ← getTemplate st j
  let n ← asNat (← fld j "n")
  let bits ← strToBits (← asStr (← fld j "bits"))
  match t with
  | .error e => pure (st, errJson e)
  | .ok tmpl =>
    match walkList ColParse.prims tmpl { bits := bits, vals := List.replicate n [] } with
    | .error e => pure (st, errJson e)
    | .ok s => pure (st, jobj [("cols", jarr (s.forced.reverse.map colToJson)), ("rest", jnat s.bits.length)])

end Bufr.Drv
