import BufrModel.Lang.PathParser
import BufrModel.Spec.PathGrammar
import BufrModel.Drv.JsonUtil
open Lean
namespace Bufr.Drv
open Bufr.PathLang

def optIntRepr : Option Int → String
  | none => "N"
  | some i => toString i

def sliceRepr : Slice → String
  | .idx i => s!"i{i}"
  | .range a b c => s!"r{optIntRepr a},{optIntRepr b},{optIntRepr c}"

/-- canonical one-line rendering of a parse result (the same format is produced on the Python side) -/
def pathRepr (p : Path) : String :=
  (match p.subset with | none => "S-" | some s => "S" ++ sliceRepr s) ++
  String.join (p.comps.map fun c => "|" ++ String.singleton c.sep ++ String.ofList c.id ++ "|" ++ sliceRepr c.slice)

def resRepr : Except Err Path → String
  | .ok p => pathRepr p
  | .error e => "E:" ++ e.tag

def specRepr : Option Path → String
  | some p => pathRepr p
  | none => "E:lib:path"

def opPath (j : Json) : J Json := do
  let s ← asStr (← fld j "s")
  let r := parse s.toList
  let sp := Spec.recognise s.toList
  let pr := match r with | .ok p => jstr (String.ofList (print p)) | _ => Json.null
  let rt := match r with | .ok p => jstr (resRepr (parse (print p))) | _ => Json.null
  pure (jobj [("parse", jstr (resRepr r)), ("spec", jstr (specRepr sp)), ("print", pr), ("reparse", rt)])

/-- the `i`-th string of length `len` over `alpha` (most significant symbol first) -/
def nthString (alpha : Array Char) (len : Nat) (i : Nat) : List Char :=
  let rec go : Nat → Nat → List Char → List Char
    | 0, _, acc => acc
    | k + 1, i, acc => go k (i / alpha.size) (alpha[i % alpha.size]! :: acc)
  go len i []

/-- enumerate strings of length `len` with index in [from, to): newline-joined canonical results,
    plus the number of strings on which the state machine and the grammar disagree -/
def opPathEnum (j : Json) : J Json := do
  let alpha := (← asStr (← fld j "alphabet")).toList.toArray
  let len ← asNat (← fld j "len")
  let lo ← asNat (← fld j "from")
  let hi ← asNat (← fld j "to")
  let mut out : Array String := #[]
  let mut diff := 0
  for i in [lo:hi] do
    let s := nthString alpha len i
    let r := resRepr (parse s)
    if r != specRepr (Spec.recognise s) then diff := diff + 1
    out := out.push r
  pure (jobj [("res", jstr (String.intercalate "\n" out.toList)), ("specdiff", jnat diff)])

end Bufr.Drv
