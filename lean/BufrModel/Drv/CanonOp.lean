/-
  Driver operation over the SPECIFICATION of the canonical data bits (`Spec/CanonBits.lean`; C02):
    canon-bits {"ids":[..],"compressed":b,"vals":[[..],..],"edition":e}
        -> {"bits":"0101..",            the canonical data bits (`canonDataBits`, flat reading, no tree, no encoder)
            "sec4":"0101..",            section 4 as it appears in the message for that edition: length, reserved
                                        octet (zero), the bits, the zero padding (`canonSection4`)
            "wf":b}                     `WFflat tables defaultDepth ids` (hypothesis of C02_data_bits_canonical)
        or {"none":true,"wf":b}         when the specification assigns no bit stream
-/
import BufrModel.Spec.CanonBits
import BufrModel.Drv.CoderOp
open Lean
namespace Bufr.Drv
open Bufr.Spec

def opCanonBits (st : DrvState) (j : Json) : J (DrvState × Json) := do
  let ids ← (← asList (← fld j "ids")).mapM asNat
  let compressed ← asBool (← fld j "compressed")
  let valss ← (← asList (← fld j "vals")).mapM fun l => do (← asList l).mapM valOfJson
  let edition ← asInt (fldD j "edition" (jnat 4))
  let wf := Json.bool (wfCount st.tables defaultDepth ids)
  match canonDataBits st.tables defaultDepth ids compressed valss with
  | none => pure (st, jobj [("none", Json.bool true), ("wf", wf)])
  | some bits =>
    pure (st, jobj [("bits", jstr (bitsToStr bits)),
      ("sec4", jstr (bitsToStr (canonSection4 edition (zeros 8) bits))), ("wf", wf)])

end Bufr.Drv
