/-
  Driver operation over the SPECIFICATION of the canonical bits (`Spec/CanonBits.lean`,
  `Spec/CanonMessage.lean`; C02):
    canon-bits {"ids":[..],"compressed":b,"vals":[[..],..],"edition":e,
                "sections":[[value,...],...]   (optional; values as for msg-encode, 5 or 6 sections)}
        -> {"bits":"0101..",            the canonical data bits (`canonDataBits`: flat reading, no tree, no encoder)
            "sec4":"0101..",            section 4 as it appears in the message for that edition: length, reserved
                                        octet (zero), the bits, the zero padding (`canonSection4`)
            "msg":"hex" | null,         with "sections": the whole canonical message (`canonMessageBits` over the
                                        canonical data bits), null when it does not exist
            "wf":b}                     `WFflat tables defaultDepth ids` (hypothesis of C02_data_bits_canonical)
        or {"none":true,"wf":b}         when the specification assigns no data bits
-/
import BufrModel.Spec.CanonBits
import BufrModel.Spec.CanonMessage
import BufrModel.Drv.CoderOp
import BufrModel.Drv.SectionsOp
open Lean
namespace Bufr.Drv
open Bufr.Spec

/-- the whole canonical message from the encoder's section value lists (section 2 present iff six lists) -/
def canonMsg (edition : Nat) (secs : List (List PVal)) (bits : Bits) : Option (List UInt8) :=
  match secs with
  | [s0, s1, s3, s4, s5] => (canonMessageBits edition s0 s1 none s3 s4 s5 bits).map bitsToBytes
  | [s0, s1, s2, s3, s4, s5] => (canonMessageBits edition s0 s1 (some s2) s3 s4 s5 bits).map bitsToBytes
  | _ => none

def opCanonBits (st : DrvState) (j : Json) : J (DrvState × Json) := do
  let ids ← (← asList (← fld j "ids")).mapM asNat
  let compressed ← asBool (← fld j "compressed")
  let valss ← (← asList (← fld j "vals")).mapM fun l => do (← asList l).mapM valOfJson
  let edition ← asNat (fldD j "edition" (jnat 4))
  let secs : Option (List (List PVal)) ←
    match j.getObjVal? "sections" with
    | .ok s => do pure (some (← (← asList s).mapM fun x => do (← asList x).mapM pvalOfJson))
    | .error _ => pure none
  let wf := Json.bool (wfCount st.tables defaultDepth ids)
  match canonDataBits st.tables defaultDepth ids compressed valss with
  | none => pure (st, jobj [("none", Json.bool true), ("wf", wf)])
  | some bits =>
    let msg : List (String × Json) :=
      match secs with
      | none => []
      | some ss => [("msg", match canonMsg edition ss bits with
          | none => Json.null
          | some b => jstr (bytesToHex b))]
    pure (st, jobj ([("bits", jstr (bitsToStr bits)),
      ("sec4", jstr (bitsToStr (canonSection4 edition (zeros 8) bits))), ("wf", wf)] ++ msg))

end Bufr.Drv
