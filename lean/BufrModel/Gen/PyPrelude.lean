/-
  Primitives used by the files that `harness/py2lean.py` generates from the Python source
  (`Gen/Py*.lean`).  This file is STATIC (hand-written, not regenerated); it imports core Lean only.

  It is the *trusted mapping table* of the translator for everything that is not translated
  structurally: each definition below states which Python operation it stands for.  The table in
  `notes/Tie.md` lists them with the assumption each rests on.  Nothing in here is `partial`,
  `unsafe` or `implemented_by`.

  Data representation
    Python `int`                       -> `Int`   (`Nat` where the translator has shown non-negativity)
    Python `str`                       -> `List Char`  (code points; lone surrogates are not representable)
    Python `bytes`                     -> `List UInt8`
    Python `bool`                      -> `Bool`
    Python `list`                      -> `List α`  (by value: the translator rejects aliasing patterns)
    Python `dict` (3.7+)               -> `List (κ × α)` in insertion order, keys pairwise distinct
    Python `tuple`                     -> product
    "a list of such values, or a non-list" -> `Py.Tree α`
    Python exceptions                  -> `Except Py.Exc`
-/
namespace Py

/-- The exceptions a translated function can end with.  `outOfFuel` is not a Python exception: a
    translated `while` loop is a recursion on a fuel argument, and running out of fuel is reported
    by this value (so that a theorem `f x = .ok y` also shows that the fuel was sufficient, i.e. that
    the Python loop terminates). -/
inductive Exc where
  | indexError | keyError | valueError | zeroDivisionError | typeError
  | outOfFuel
  | raised (cls : String)      -- `raise Cls(...)`: the class name; the message is not modelled
  deriving DecidableEq, Repr, Inhabited

abbrev Str := List Char

/-- an object the translated code only stores, counts or passes on -/
structure Obj where
  tag : Nat := 0
  deriving DecidableEq, Repr, Inhabited

/-- a Python value that is either a list (of such values) or something that is not a list: what code that
    tests `isinstance(x, list)` distinguishes -/
inductive Tree (α : Type) where
  | leaf (a : α)
  | list (xs : List (Tree α))

/-- `for x in xs: body` where the body may raise (the list is evaluated once and iterated by value) -/
def forIn {α σ : Type} : List α → σ → (α → σ → Except Exc σ) → Except Exc σ
  | [], v, _ => .ok v
  | x :: xs, v, f =>
    match f x v with
    | .error e => .error e
    | .ok v' => forIn xs v' f

/-- `for x in xs: body` where the body cannot raise -/
def forInPure {α σ : Type} : List α → σ → (α → σ → σ) → σ
  | [], v, _ => v
  | x :: xs, v, f => forInPure xs (f x v) f

/-! ### sequences -/

/-- `xs[i]` for a `Nat` index (`IndexError` when out of range) -/
def getItemNat {α : Type} (xs : List α) (i : Nat) : Except Exc α :=
  match xs[i]? with
  | some x => .ok x
  | none => .error .indexError

/-- `xs[i]` for an `int` index: a negative index counts from the end -/
def getItem {α : Type} (xs : List α) (i : Int) : Except Exc α :=
  if 0 ≤ i then getItemNat xs i.toNat
  else if 0 ≤ i + (xs.length : Int) then getItemNat xs (i + (xs.length : Int)).toNat
  else .error .indexError

/-- `s[i]` on a `str`: a string of length one -/
def strGetItemNat (s : Str) (i : Nat) : Except Exc Str :=
  match s[i]? with
  | some c => .ok [c]
  | none => .error .indexError

def strGetItem (s : Str) (i : Int) : Except Exc Str :=
  if 0 ≤ i then strGetItemNat s i.toNat
  else if 0 ≤ i + (s.length : Int) then strGetItemNat s (i + (s.length : Int)).toNat
  else .error .indexError

/-- `sep.join(xs)` -/
def join (sep : Str) : List Str → Str
  | [] => []
  | [x] => x
  | x :: y :: rest => x ++ sep ++ join sep (y :: rest)

/-- `s * n` / `xs * n` (a non-positive count gives the empty sequence) -/
def repeatSeq {α : Type} (xs : List α) (n : Int) : List α :=
  (List.replicate n.toNat xs).flatten

/-! ### `str.isspace`, `str.strip()` -/

/-- `c.isspace()` for one character: Unicode bidirectional class WS/B/S or category Zs (CPython's
    `_PyUnicode_IsWhitespace` table) -/
def isSpaceChar (c : Char) : Bool :=
  let n := c.toNat
  (9 ≤ n && n ≤ 13) || (28 ≤ n && n ≤ 32) || n == 0x85 || n == 0xa0 || n == 0x1680 ||
  (0x2000 ≤ n && n ≤ 0x200a) || n == 0x2028 || n == 0x2029 || n == 0x202f || n == 0x205f || n == 0x3000

/-- `s.lstrip()` -/
def lstrip (s : Str) : Str := s.dropWhile isSpaceChar
/-- `s.rstrip()` -/
def rstrip (s : Str) : Str := (s.reverse.dropWhile isSpaceChar).reverse
/-- `s.strip()` -/
def strip (s : Str) : Str := rstrip (lstrip s)

/-! ### `str(int)`, `'{}'.format(int)`, `'{:0Nd}'.format(int)` -/

/-- `str(n)` for a non-negative int -/
def strOfNat (n : Nat) : Str := Nat.toDigits 10 n

/-- `str(i)` -/
def strOfInt (i : Int) : Str :=
  if i < 0 then '-' :: Nat.toDigits 10 i.natAbs else Nat.toDigits 10 i.toNat

/-- pad on the left with `fill` up to `width` characters (`'{:>w}'`) -/
def padLeft (fill : Char) (width : Nat) (s : Str) : Str :=
  List.replicate (width - s.length) fill ++ s

/-- `'{:0Wd}'.format(i)`: sign first, then zeros, then digits, total width at least `W` -/
def formatIntZero (width : Nat) (i : Int) : Str :=
  if i < 0 then '-' :: padLeft '0' (width - 1) (Nat.toDigits 10 i.natAbs)
  else padLeft '0' width (Nat.toDigits 10 i.toNat)

/-- `'{:>Wd}'.format(i)` and `'{:Wd}'.format(i)` (numbers are right-aligned by default) -/
def formatIntRight (width : Int) (i : Int) : Str :=
  padLeft ' ' width.toNat (strOfInt i)

/-- `'{:{align}{width}d}'.format(i, align=align, width=width)`: the format specification is the string
    `align + str(width) + 'd'`.  Modelled for `align` in `'>'`, `'<'`; any other alignment string is outside
    the modelled subset and reported as an error value (so no theorem `= .ok _` can be proved about it).
    A negative `width` yields `'>-3d'`, which Python parses as sign option `-` followed by width 3, and
    `width = 0` yields `'>0d'` (zero flag, no width): hence `width.natAbs`. -/
def formatIntAlign (align : Str) (width : Int) (i : Int) : Except Exc Str :=
  let body := strOfInt i
  let w := width.natAbs
  if align = ['>'] then .ok (padLeft ' ' w body)
  else if align = ['<'] then .ok (body ++ List.replicate (w - body.length) ' ')
  else .error (.raised "py2lean: format alignment outside the modelled subset")

/-! ### `dict` (insertion ordered) -/

/-- `k in d` -/
def dictContains {κ α : Type} [BEq κ] (d : List (κ × α)) (k : κ) : Bool :=
  (d.lookup k).isSome

/-- `d[k]` (`KeyError` when absent) -/
def dictGetItem {κ α : Type} [BEq κ] (d : List (κ × α)) (k : κ) : Except Exc α :=
  match d.lookup k with
  | some v => .ok v
  | none => .error .keyError

/-- `d[k] = v`: replaces the value in place when the key exists (the position is kept), appends
    otherwise -/
def dictSetItem {κ α : Type} [BEq κ] : List (κ × α) → κ → α → List (κ × α)
  | [], k, v => [(k, v)]
  | (k', v') :: rest, k, v => if k == k' then (k', v) :: rest else (k', v') :: dictSetItem rest k v

/-! ### arithmetic -/

/-- `a // b` (floor division; `ZeroDivisionError`) -/
def floorDiv (a b : Int) : Except Exc Int :=
  if b = 0 then .error .zeroDivisionError else .ok (Int.fdiv a b)

/-- `a % b` (sign of the divisor; `ZeroDivisionError`) -/
def floorMod (a b : Int) : Except Exc Int :=
  if b = 0 then .error .zeroDivisionError else .ok (Int.fmod a b)

/-! ### additions for stateful classes (`NodePathParser`, C15): `None`-or-value, `slice` objects, `try/except`,
    `int(str)`, `str.find`, `sub in string` -/

/-- using `None` where a `str` / `int` / `list` is required (`None + 'a'`, `len(None)`, `None[0]`, `None >= 0`,
    `int(None)`): `TypeError`.  A value of Python type "`T` or `None`" is an `Option T`. -/
def unwrap {α : Type} : Option α → Except Exc α
  | some a => .ok a
  | none => .error .typeError

/-- a value that is a Python `int` or a `slice(start, stop, step)` object whose three members are `int` or `None` -/
inductive IntOrSlice where
  | int (i : Int)
  | slice (start stop step : Option Int)
  deriving DecidableEq, Repr, Inhabited

/-- `slice(*xs)`: one argument is the stop, two are start and stop, three start, stop and step; `slice()` with no
    or with more than three arguments is a `TypeError` -/
def sliceOfList : List (Option Int) → Except Exc IntOrSlice
  | [b] => .ok (.slice none b none)
  | [a, b] => .ok (.slice a b none)
  | [a, b, c] => .ok (.slice a b c)
  | _ => .error .typeError

/-- `try: body  except E: handler` where the handler does not depend on the state (the translator accepts only a
    handler that is one `raise` whose arguments cannot raise): `catches` recognises the exceptions `E` covers -/
def tryExcept {α : Type} (body : Except Exc α) (catches : Exc → Bool) (handler : Except Exc α) : Except Exc α :=
  match body with
  | .error e => if catches e then handler else .error e
  | .ok a => .ok a

/-- `needle in hay` for two `str`: `needle` occurs as a contiguous substring (the empty string always does) -/
def strContains : (hay needle : Str) → Bool
  | [], needle => needle.isEmpty
  | c :: t, needle => needle.isPrefixOf (c :: t) || strContains t needle

/-- lowest index at which `needle` occurs in `hay` at or after `i` (helper of `strFind`) -/
def strFindFrom (needle : Str) : Str → Nat → Int
  | [], i => if needle.isEmpty then (i : Int) else -1
  | c :: t, i => if needle.isPrefixOf (c :: t) then (i : Int) else strFindFrom needle t (i + 1)

/-- `hay.find(needle)`: the lowest index of an occurrence, `-1` when there is none -/
def strFind (hay needle : Str) : Int := strFindFrom needle hay 0

/-- first code points of the blocks of ten consecutive decimal digits 0-9 outside ASCII (Unicode 15.0.0, the
    `unicodedata` of CPython 3.12: the characters with a `decimal` property, i.e. general category Nd; every block
    is `zero .. zero + 9` in order).  `harness/props/c15.py` compares this table with the running interpreter. -/
def decimalZeros : List Nat :=
  [0x660, 0x6f0, 0x7c0, 0x966, 0x9e6, 0xa66, 0xae6, 0xb66,
   0xbe6, 0xc66, 0xce6, 0xd66, 0xde6, 0xe50, 0xed0, 0xf20,
   0x1040, 0x1090, 0x17e0, 0x1810, 0x1946, 0x19d0, 0x1a80, 0x1a90,
   0x1b50, 0x1bb0, 0x1c40, 0x1c50, 0xa620, 0xa8d0, 0xa900, 0xa9d0,
   0xa9f0, 0xaa50, 0xabf0, 0xff10, 0x104a0, 0x10d30, 0x11066, 0x110f0,
   0x11136, 0x111d0, 0x112f0, 0x11450, 0x114d0, 0x11650, 0x116c0, 0x11730,
   0x118e0, 0x11950, 0x11c50, 0x11d50, 0x11da0, 0x11f50, 0x16a60, 0x16ac0,
   0x16b50, 0x1d7ce, 0x1d7d8, 0x1d7e2, 0x1d7ec, 0x1d7f6, 0x1e140, 0x1e2f0,
   0x1e4f0, 0x1e950, 0x1fbf0]

/-- `Py_UNICODE_TODECIMAL`: the decimal digit value of a character, ASCII or not -/
def decimalDigit? (c : Char) : Option Nat :=
  let n := c.toNat
  if 48 ≤ n && n ≤ 57 then some (n - 48)
  else match decimalZeros.find? (fun z => z ≤ n && n ≤ z + 9) with
    | some z => some (n - z)
    | none => none

/-- the characters `int()` skips at both ends of its argument: C `isspace` of the ASCII range (9-13, 32) and the
    non-ASCII `str.isspace` characters (which `_PyUnicode_TransformDecimalAndSpaceToASCII` turns into blanks).
    The ASCII separators 0x1c-0x1f are `str.isspace` but NOT skipped by `int()`. -/
def intIsSpace (c : Char) : Bool :=
  let n := c.toNat
  (9 ≤ n && n ≤ 13) || n == 32 || (127 ≤ n && isSpaceChar c)

/-- `digit ('_'? digit)*`: the digit values, most significant first (`none`: not of that shape) -/
def intDigits : List Char → Option (List Nat)
  | [] => none
  | c :: rest =>
    match decimalDigit? c with
    | none => none
    | some d =>
      match rest with
      | [] => some [d]
      | '_' :: rest' => (intDigits rest').map (d :: ·)
      | r :: rest' => (intDigits (r :: rest')).map (d :: ·)

/-- `sys.get_int_max_str_digits()` of an interpreter started without `-X int_max_str_digits` /
    `PYTHONINTMAXSTRDIGITS` (CPython >= 3.11, and the security releases of 3.7-3.10) -/
def intMaxStrDigits : Nat := 4300

/-- the digits of `int(s)` after blanks and sign are removed; `neg`: a `-` was read -/
def intOfBody (neg : Bool) (body : Str) : Except Exc Int :=
  match intDigits body with
  | none => .error .valueError
  | some ds =>
    if ds.length > intMaxStrDigits then .error .valueError
    else .ok (if neg then -((ds.foldl (fun a d => 10 * a + d) 0 : Nat) : Int)
              else ((ds.foldl (fun a d => 10 * a + d) 0 : Nat) : Int))

/-- `int(s)` for a `str` (base 10): optional blanks, an optional sign `+` / `-`, decimal digits (ASCII or any Unicode
    Nd character) with single underscores allowed between digits, optional blanks; `ValueError` otherwise, and
    `ValueError` when there are more than `intMaxStrDigits` digits (underscores and sign not counted). -/
def intOfStr (s : Str) : Except Exc Int :=
  match ((s.dropWhile intIsSpace).reverse.dropWhile intIsSpace).reverse with
  | '-' :: r => intOfBody true r
  | '+' :: r => intOfBody false r
  | r => intOfBody false r

end Py
