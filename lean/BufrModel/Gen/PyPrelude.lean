/-
  Primitives used by the files that `harness/py2lean.py` generates from the Python source
  (`Gen/Py*.lean`).  This file is STATIC (hand-written, not regenerated); it imports core Lean only.

  It is the *trusted mapping table* of the translator for everything that is not translated
  structurally: each definition below states which Python operation it stands for.  The table in
  `notes/Tie.md` lists them with the assumption each rests on.  Nothing in here is `partial`,
  `unsafe` or `implemented_by`.

  Data representation
    Python `int`                       -> `Int`   (`Nat` where the translator has shown non-negativity)
    Python `str`                       -> `List Char`  (code points; lone surrogates are not representable)
    Python `bytes`                     -> `List UInt8`
    Python `bool`                      -> `Bool`
    Python `list`                      -> `List α`  (by value: the translator rejects aliasing patterns)
    Python `dict` (3.7+)               -> `List (κ × α)` in insertion order, keys pairwise distinct
    Python `tuple`                     -> product
    "a list of such values, or a non-list" -> `Py.Tree α`
    Python exceptions                  -> `Except Py.Exc`
-/
namespace Py

/-- The exceptions a translated function can end with.  `outOfFuel` is not a Python exception: a
    translated `while` loop is a recursion on a fuel argument, and running out of fuel is reported
    by this value (so that a theorem `f x = .ok y` also shows that the fuel was sufficient, i.e. that
    the Python loop terminates). -/
inductive Exc where
  | indexError | keyError | valueError | zeroDivisionError | typeError
  | outOfFuel
  | raised (cls : String)      -- `raise Cls(...)`: the class name; the message is not modelled
  deriving DecidableEq, Repr, Inhabited

abbrev Str := List Char

/-- an object the translated code only stores, counts or passes on -/
structure Obj where
  tag : Nat := 0
  deriving DecidableEq, Repr, Inhabited

/-- a Python value that is either a list (of such values) or something that is not a list: what code that
    tests `isinstance(x, list)` distinguishes -/
inductive Tree (α : Type) where
  | leaf (a : α)
  | list (xs : List (Tree α))

/-- `for x in xs: body` where the body may raise (the list is evaluated once and iterated by value) -/
def forIn {α σ : Type} : List α → σ → (α → σ → Except Exc σ) → Except Exc σ
  | [], v, _ => .ok v
  | x :: xs, v, f =>
    match f x v with
    | .error e => .error e
    | .ok v' => forIn xs v' f

/-- `for x in xs: body` where the body cannot raise -/
def forInPure {α σ : Type} : List α → σ → (α → σ → σ) → σ
  | [], v, _ => v
  | x :: xs, v, f => forInPure xs (f x v) f

/-! ### sequences -/

/-- `xs[i]` for a `Nat` index (`IndexError` when out of range) -/
def getItemNat {α : Type} (xs : List α) (i : Nat) : Except Exc α :=
  match xs[i]? with
  | some x => .ok x
  | none => .error .indexError

/-- `xs[i]` for an `int` index: a negative index counts from the end -/
def getItem {α : Type} (xs : List α) (i : Int) : Except Exc α :=
  if 0 ≤ i then getItemNat xs i.toNat
  else if 0 ≤ i + (xs.length : Int) then getItemNat xs (i + (xs.length : Int)).toNat
  else .error .indexError

/-- `s[i]` on a `str`: a string of length one -/
def strGetItemNat (s : Str) (i : Nat) : Except Exc Str :=
  match s[i]? with
  | some c => .ok [c]
  | none => .error .indexError

def strGetItem (s : Str) (i : Int) : Except Exc Str :=
  if 0 ≤ i then strGetItemNat s i.toNat
  else if 0 ≤ i + (s.length : Int) then strGetItemNat s (i + (s.length : Int)).toNat
  else .error .indexError

/-- `sep.join(xs)` -/
def join (sep : Str) : List Str → Str
  | [] => []
  | [x] => x
  | x :: y :: rest => x ++ sep ++ join sep (y :: rest)

/-- `s * n` / `xs * n` (a non-positive count gives the empty sequence) -/
def repeatSeq {α : Type} (xs : List α) (n : Int) : List α :=
  (List.replicate n.toNat xs).flatten

/-! ### `str.isspace`, `str.strip()` -/

/-- `c.isspace()` for one character: Unicode bidirectional class WS/B/S or category Zs (CPython's
    `_PyUnicode_IsWhitespace` table) -/
def isSpaceChar (c : Char) : Bool :=
  let n := c.toNat
  (9 ≤ n && n ≤ 13) || (28 ≤ n && n ≤ 32) || n == 0x85 || n == 0xa0 || n == 0x1680 ||
  (0x2000 ≤ n && n ≤ 0x200a) || n == 0x2028 || n == 0x2029 || n == 0x202f || n == 0x205f || n == 0x3000

/-- `s.lstrip()` -/
def lstrip (s : Str) : Str := s.dropWhile isSpaceChar
/-- `s.rstrip()` -/
def rstrip (s : Str) : Str := (s.reverse.dropWhile isSpaceChar).reverse
/-- `s.strip()` -/
def strip (s : Str) : Str := rstrip (lstrip s)

/-! ### `str(int)`, `'{}'.format(int)`, `'{:0Nd}'.format(int)` -/

/-- `str(n)` for a non-negative int -/
def strOfNat (n : Nat) : Str := Nat.toDigits 10 n

/-- `str(i)` -/
def strOfInt (i : Int) : Str :=
  if i < 0 then '-' :: Nat.toDigits 10 i.natAbs else Nat.toDigits 10 i.toNat

/-- pad on the left with `fill` up to `width` characters (`'{:>w}'`) -/
def padLeft (fill : Char) (width : Nat) (s : Str) : Str :=
  List.replicate (width - s.length) fill ++ s

/-- `'{:0Wd}'.format(i)`: sign first, then zeros, then digits, total width at least `W` -/
def formatIntZero (width : Nat) (i : Int) : Str :=
  if i < 0 then '-' :: padLeft '0' (width - 1) (Nat.toDigits 10 i.natAbs)
  else padLeft '0' width (Nat.toDigits 10 i.toNat)

/-- `'{:>Wd}'.format(i)` and `'{:Wd}'.format(i)` (numbers are right-aligned by default) -/
def formatIntRight (width : Int) (i : Int) : Str :=
  padLeft ' ' width.toNat (strOfInt i)

/-- `'{:{align}{width}d}'.format(i, align=align, width=width)`: the format specification is the string
    `align + str(width) + 'd'`.  Modelled for `align` in `'>'`, `'<'`; any other alignment string is outside
    the modelled subset and reported as an error value (so no theorem `= .ok _` can be proved about it).
    A negative `width` yields `'>-3d'`, which Python parses as sign option `-` followed by width 3, and
    `width = 0` yields `'>0d'` (zero flag, no width): hence `width.natAbs`. -/
def formatIntAlign (align : Str) (width : Int) (i : Int) : Except Exc Str :=
  let body := strOfInt i
  let w := width.natAbs
  if align = ['>'] then .ok (padLeft ' ' w body)
  else if align = ['<'] then .ok (body ++ List.replicate (w - body.length) ' ')
  else .error (.raised "py2lean: format alignment outside the modelled subset")

/-! ### `dict` (insertion ordered) -/

/-- `k in d` -/
def dictContains {κ α : Type} [BEq κ] (d : List (κ × α)) (k : κ) : Bool :=
  (d.lookup k).isSome

/-- `d[k]` (`KeyError` when absent) -/
def dictGetItem {κ α : Type} [BEq κ] (d : List (κ × α)) (k : κ) : Except Exc α :=
  match d.lookup k with
  | some v => .ok v
  | none => .error .keyError

/-- `d[k] = v`: replaces the value in place when the key exists (the position is kept), appends
    otherwise -/
def dictSetItem {κ α : Type} [BEq κ] : List (κ × α) → κ → α → List (κ × α)
  | [], k, v => [(k, v)]
  | (k', v') :: rest, k, v => if k == k' then (k', v) :: rest else (k', v') :: dictSetItem rest k v

/-! ### arithmetic -/

/-- `a // b` (floor division; `ZeroDivisionError`) -/
def floorDiv (a b : Int) : Except Exc Int :=
  if b = 0 then .error .zeroDivisionError else .ok (Int.fdiv a b)

/-- `a % b` (sign of the divisor; `ZeroDivisionError`) -/
def floorMod (a b : Int) : Except Exc Int :=
  if b = 0 then .error .zeroDivisionError else .ok (Int.fmod a b)

/-! ## w5-smallsrc: primitives of the small self-contained functions -/

/-- `bin(i)`: `'0b'` and the binary digits, a leading `'-'` for a negative int -/
def bin (i : Int) : Str :=
  if i < 0 then '-' :: '0' :: 'b' :: Nat.toDigits 2 i.natAbs else '0' :: 'b' :: Nat.toDigits 2 i.toNat

/-- a slice bound as CPython's `PySlice_AdjustIndices` clamps it (step 1): a negative bound counts from the
    end, then the bound is clamped to `0 .. len` -/
def sliceBound (len : Nat) (i : Int) : Nat :=
  if i < 0 then (i + (len : Int)).toNat else min i.toNat len

/-- `xs[lo:hi]` (no step; `none` = the bound is omitted): the items from `lo` up to but not including `hi`,
    empty when `hi ≤ lo`; never raises -/
def slice {α : Type} (xs : List α) (lo hi : Option Int) : List α :=
  let a := match lo with | none => 0 | some i => sliceBound xs.length i
  let b := match hi with | none => xs.length | some i => sliceBound xs.length i
  (xs.drop a).take (b - a)

/-- `a, b = xs` for a list `xs`: `ValueError` unless it has exactly two items -/
def unpack2 {α : Type} : List α → Except Exc (α × α)
  | [a, b] => .ok (a, b)
  | _ => .error .valueError

/-- `s.split(sep)` for a separator of one character: the pieces between the occurrences of `sep`
    (`''.split('.') = ['']`; the result is never empty) -/
def splitChar (sep : Char) : Str → List Str
  | [] => [[]]
  | c :: cs =>
    if c = sep then [] :: splitChar sep cs
    else match splitChar sep cs with
      | [] => [[c]]            -- unreachable: the result is never empty
      | hd :: tl => (c :: hd) :: tl

namespace Small

/-! ### `max`, `min`, `set` on lists of int -/

/-- `max(xs)` (`ValueError` on the empty list) -/
def maxOf : List Int → Except Exc Int
  | [] => .error .valueError
  | x :: xs =>
    match maxOf xs with
    | .error _ => .ok x                              -- `xs` is empty
    | .ok y => .ok (if y ≤ x then x else y)

/-- `min(xs)` (`ValueError` on the empty list) -/
def minOf : List Int → Except Exc Int
  | [] => .error .valueError
  | x :: xs =>
    match minOf xs with
    | .error _ => .ok x
    | .ok y => .ok (if x ≤ y then x else y)

/-- `set(xs)` as the list of its distinct values (only `len(set(xs))` and `sorted(set(xs))` are translated, so
    the order is immaterial; a value is kept at its last occurrence) -/
def distinct : List Int → List Int
  | [] => []
  | x :: xs => if xs.contains x then distinct xs else x :: distinct xs

/-- `enumerate(xs, k)` as a list of pairs -/
def enumFrom {α : Type} : Nat → List α → List (Nat × α)
  | _, [] => []
  | k, x :: xs => (k, x) :: enumFrom (k + 1) xs

/-- `enumerate(xs)` -/
def enumerate {α : Type} (xs : List α) : List (Nat × α) := enumFrom 0 xs

/-- insertion into an ascending list without duplicates -/
def insertSorted (x : Int) : List Int → List Int
  | [] => [x]
  | y :: ys => if x < y then x :: y :: ys else if x = y then y :: ys else y :: insertSorted x ys

/-- `sorted(set(xs))`: the distinct values in ascending order -/
def sortedSet (xs : List Int) : List Int := xs.foldr insertSorted []

end Small
/-! ### additions for stateful classes (`NodePathParser`, C15): `None`-or-value, `slice` objects, `try/except`,
    `int(str)`, `str.find`, `sub in string` -/

/-- using `None` where a `str` / `int` / `list` is required (`None + 'a'`, `len(None)`, `None[0]`, `None >= 0`,
    `int(None)`): `TypeError`.  A value of Python type "`T` or `None`" is an `Option T`. -/
def unwrap {α : Type} : Option α → Except Exc α
  | some a => .ok a
  | none => .error .typeError

/-- a value that is a Python `int` or a `slice(start, stop, step)` object whose three members are `int` or `None` -/
inductive IntOrSlice where
  | int (i : Int)
  | slice (start stop step : Option Int)
  deriving DecidableEq, Repr, Inhabited

/-- `slice(*xs)`: one argument is the stop, two are start and stop, three start, stop and step; `slice()` with no
    or with more than three arguments is a `TypeError` -/
def sliceOfList : List (Option Int) → Except Exc IntOrSlice
  | [b] => .ok (.slice none b none)
  | [a, b] => .ok (.slice a b none)
  | [a, b, c] => .ok (.slice a b c)
  | _ => .error .typeError

/-- `try: body  except E: handler` where the handler does not depend on the state (the translator accepts only a
    handler that is one `raise` whose arguments cannot raise): `catches` recognises the exceptions `E` covers -/
def tryExcept {α : Type} (body : Except Exc α) (catches : Exc → Bool) (handler : Except Exc α) : Except Exc α :=
  match body with
  | .error e => if catches e then handler else .error e
  | .ok a => .ok a

/-- `needle in hay` for two `str`: `needle` occurs as a contiguous substring (the empty string always does) -/
def strContains : (hay needle : Str) → Bool
  | [], needle => needle.isEmpty
  | c :: t, needle => needle.isPrefixOf (c :: t) || strContains t needle

/-- lowest index at which `needle` occurs in `hay` at or after `i` (helper of `strFind`) -/
def strFindFrom (needle : Str) : Str → Nat → Int
  | [], i => if needle.isEmpty then (i : Int) else -1
  | c :: t, i => if needle.isPrefixOf (c :: t) then (i : Int) else strFindFrom needle t (i + 1)

/-- `hay.find(needle)`: the lowest index of an occurrence, `-1` when there is none -/
def strFind (hay needle : Str) : Int := strFindFrom needle hay 0

/-- first code points of the blocks of ten consecutive decimal digits 0-9 outside ASCII (Unicode 15.0.0, the
    `unicodedata` of CPython 3.12: the characters with a `decimal` property, i.e. general category Nd; every block
    is `zero .. zero + 9` in order).  `harness/props/c15.py` compares this table with the running interpreter. -/
def decimalZeros : List Nat :=
  [0x660, 0x6f0, 0x7c0, 0x966, 0x9e6, 0xa66, 0xae6, 0xb66,
   0xbe6, 0xc66, 0xce6, 0xd66, 0xde6, 0xe50, 0xed0, 0xf20,
   0x1040, 0x1090, 0x17e0, 0x1810, 0x1946, 0x19d0, 0x1a80, 0x1a90,
   0x1b50, 0x1bb0, 0x1c40, 0x1c50, 0xa620, 0xa8d0, 0xa900, 0xa9d0,
   0xa9f0, 0xaa50, 0xabf0, 0xff10, 0x104a0, 0x10d30, 0x11066, 0x110f0,
   0x11136, 0x111d0, 0x112f0, 0x11450, 0x114d0, 0x11650, 0x116c0, 0x11730,
   0x118e0, 0x11950, 0x11c50, 0x11d50, 0x11da0, 0x11f50, 0x16a60, 0x16ac0,
   0x16b50, 0x1d7ce, 0x1d7d8, 0x1d7e2, 0x1d7ec, 0x1d7f6, 0x1e140, 0x1e2f0,
   0x1e4f0, 0x1e950, 0x1fbf0]

/-- `Py_UNICODE_TODECIMAL`: the decimal digit value of a character, ASCII or not -/
def decimalDigit? (c : Char) : Option Nat :=
  let n := c.toNat
  if 48 ≤ n && n ≤ 57 then some (n - 48)
  else match decimalZeros.find? (fun z => z ≤ n && n ≤ z + 9) with
    | some z => some (n - z)
    | none => none

/-- the characters `int()` skips at both ends of its argument: C `isspace` of the ASCII range (9-13, 32) and the
    non-ASCII `str.isspace` characters (which `_PyUnicode_TransformDecimalAndSpaceToASCII` turns into blanks).
    The ASCII separators 0x1c-0x1f are `str.isspace` but NOT skipped by `int()`. -/
def intIsSpace (c : Char) : Bool :=
  let n := c.toNat
  (9 ≤ n && n ≤ 13) || n == 32 || (127 ≤ n && isSpaceChar c)

/-- `digit ('_'? digit)*`: the digit values, most significant first (`none`: not of that shape) -/
def intDigits : List Char → Option (List Nat)
  | [] => none
  | c :: rest =>
    match decimalDigit? c with
    | none => none
    | some d =>
      match rest with
      | [] => some [d]
      | '_' :: rest' => (intDigits rest').map (d :: ·)
      | r :: rest' => (intDigits (r :: rest')).map (d :: ·)

/-- `sys.get_int_max_str_digits()` of an interpreter started without `-X int_max_str_digits` /
    `PYTHONINTMAXSTRDIGITS` (CPython >= 3.11, and the security releases of 3.7-3.10) -/
def intMaxStrDigits : Nat := 4300

/-- the digits of `int(s)` after blanks and sign are removed; `neg`: a `-` was read -/
def intOfBody (neg : Bool) (body : Str) : Except Exc Int :=
  match intDigits body with
  | none => .error .valueError
  | some ds =>
    if ds.length > intMaxStrDigits then .error .valueError
    else .ok (if neg then -((ds.foldl (fun a d => 10 * a + d) 0 : Nat) : Int)
              else ((ds.foldl (fun a d => 10 * a + d) 0 : Nat) : Int))

/-- `int(s)` for a `str` (base 10): optional blanks, an optional sign `+` / `-`, decimal digits (ASCII or any Unicode
    Nd character) with single underscores allowed between digits, optional blanks; `ValueError` otherwise, and
    `ValueError` when there are more than `intMaxStrDigits` digits (underscores and sign not counted). -/
def intOfStr (s : Str) : Except Exc Int :=
  match ((s.dropWhile intIsSpace).reverse.dropWhile intIsSpace).reverse with
  | '-' :: r => intOfBody true r
  | '+' :: r => intOfBody false r
  | r => intOfBody false r
/-! ### objects with mutable attributes (harness/py2lean_state.py, worker w5-codersrc)

  `None`-or-list values are `Option (List α)`.  A value `functools.partial(next, iter(xs))` (a callable that
  returns the next item of `xs` at every call) is represented by the items it has not returned yet, `some rest`;
  the attribute that holds it may also hold `None`.  Assumption: the list `xs` is not mutated while the iterator
  is alive (in `coder.py` the list `bitmapped_descriptors` is only ever re-bound, never mutated in place). -/

/-- truth value of a `None`-or-list: `None` and the empty list are false -/
def truthyOptList {α : Type} : Option (List α) → Bool
  | none => false
  | some l => !l.isEmpty

/-- `functools.partial(next, iter(x))` for a `None`-or-list `x`: `iter(None)` raises `TypeError` -/
def iterOpt {α : Type} : Option (List α) → Except Exc (Option (List α))
  | none => .error .typeError
  | some l => .ok (some l)

/-- `f()` where `f` is `None` (`TypeError`: 'NoneType' object is not callable) or `functools.partial(next, it)`:
    the next item and the callable afterwards, or `StopIteration` -/
def callNext {α : Type} : Option (List α) → Except Exc (α × Option (List α))
  | none => .error .typeError
  | some [] => .error (.raised "StopIteration")
  | some (x :: rest) => .ok (x, some rest)

/-- `xs.pop()` as a statement (the popped item is discarded): the list without its last item; `IndexError` on `[]` -/
def listPop {α : Type} (xs : List α) : Except Exc (List α) :=
  if xs.isEmpty then .error .indexError else .ok xs.dropLast

/-- `1.0 * 10 ** e` for an int `e` (`coder.py`: `scale_powered`).  Floats are not modelled: the value is represented by
    the EXACT power of ten `10^e`, i.e. by its exponent (for the exponents that occur, `10.0 ** e` determines `e`).
    What the float layer does with it (`process_numeric`: rounding of `(raw + refval) / scale_powered`) stays in the
    callbacks and is tied by the correspondence runs only. -/
structure Pow10 where
  exp : Int
  deriving DecidableEq, Repr

def pow10 (e : Int) : Pow10 := ⟨e⟩

/-- `a ** b` on ints with an exponent not known to be non-negative: a negative exponent gives a float, which is
    outside the modelled subset and reported as an error value (so no theorem `= .ok _` can be proved about it) -/
def powInt (a b : Int) : Except Exc Int :=
  if b < 0 then .error (.raised "py2lean: ** with a negative exponent (float result) is outside the modelled subset")
  else .ok (a ^ b.toNat)

/-! ## w5-smallsrc, round 2: printing (`'{}'.format(x)` = `str(x)`) of `None`-or-value and int-or-slice values,
    `isinstance(x, slice)`, the members of a `slice` object -/
namespace Small

/-- `d.get(k, default)` -/
def dictGet {κ α : Type} [BEq κ] (d : List (κ × α)) (k : κ) (default : α) : α :=
  (d.lookup k).getD default

/-- `str(None)` -/
def noneStr : Str := ['N', 'o', 'n', 'e']

/-- `str(x)` for `x` an `int` or `None` -/
def strOfOptInt : Option Int → Str
  | none => noneStr
  | some i => strOfInt i

/-- `str(x)` for `x` a `str` or `None` -/
def strOfOptStr : Option Str → Str
  | none => noneStr
  | some s => s

/-- `str(x)` for an `int` or a `slice` object: `str(slice(1, None, 2)) == 'slice(1, None, 2)'` -/
def strOfIntOrSlice : IntOrSlice → Str
  | .int i => strOfInt i
  | .slice a b c => ['s', 'l', 'i', 'c', 'e', '('] ++ strOfOptInt a ++ [',', ' '] ++ strOfOptInt b ++ [',', ' '] ++
      strOfOptInt c ++ [')']

def strOfOptIntOrSlice : Option IntOrSlice → Str
  | none => noneStr
  | some x => strOfIntOrSlice x

/-- `isinstance(x, slice)` for `x` an `int`, a `slice` object or `None` -/
def isSlice : Option IntOrSlice → Bool
  | some (.slice _ _ _) => true
  | _ => false

/-- `x.start` (`AttributeError` when `x` is an `int` or `None`) -/
def sliceStart : Option IntOrSlice → Except Exc (Option Int)
  | some (.slice a _ _) => .ok a
  | _ => .error (.raised "AttributeError")

/-- `x.stop` -/
def sliceStop : Option IntOrSlice → Except Exc (Option Int)
  | some (.slice _ b _) => .ok b
  | _ => .error (.raised "AttributeError")

/-- `x.step` -/
def sliceStep : Option IntOrSlice → Except Exc (Option Int)
  | some (.slice _ _ c) => .ok c
  | _ => .error (.raised "AttributeError")

end Small
/-! ### additions for functions with `return` inside loops, `try/except` whose handler continues, generators and
    callbacks (`decoder.generate_bufr_message`, C11 / C12) -/

/-- How a block of statements ends: it ran to its end, a `return` was executed, or an exception is propagating.
    Every case carries the variables at that moment, so a handler (`try/except`) and the caller of a generator see the
    state as it was when the exception was raised. -/
inductive Flow (σ : Type) where
  | next (v : σ)
  | ret (v : σ)
  | raise (e : Exc) (v : σ)

/-- statement sequencing -/
def Flow.bind {σ : Type} (x : Flow σ) (f : σ → Flow σ) : Flow σ :=
  match x with
  | .next v => f v
  | .ret v => .ret v
  | .raise e v => .raise e v

/-- evaluate an expression that may raise, in the state `v` -/
def Flow.eval {σ α : Type} (v : σ) (x : Except Exc α) (k : α → Flow σ) : Flow σ :=
  match x with
  | .ok a => k a
  | .error e => .raise e v

/-- `try: body  except E [as e]: handler` — the handler runs in the state at the moment of the exception -/
def Flow.tryExcept {σ : Type} (body : Flow σ) (catches : Exc → Bool) (handler : Exc → σ → Flow σ) : Flow σ :=
  match body with
  | .raise e v => if catches e then handler e v else .raise e v
  | r => r

/-- the end of a function body: the final variables and how it ended (`.ok`: end of the body or `return`) -/
def Flow.finish {σ : Type} : Flow σ → σ × Except Exc Unit
  | .next v => (v, .ok ())
  | .ret v => (v, .ok ())
  | .raise e v => (v, .error e)

/-- `None.attr`: `AttributeError` -/
def unwrapAttr {α : Type} : Option α → Except Exc α
  | some a => .ok a
  | none => .error (.raised "AttributeError")

/-- truth value of a `str` / `bytes` / `list` that may be `None`: `None` and the empty sequence are false -/
def truthyOptSeq {α : Type} : Option (List α) → Bool
  | some (_ :: _) => true
  | _ => false

/-- lowest index `≥ i` (counting the first element of the list given as index `i`) at which `needle` occurs -/
def seqFindFrom {α : Type} [BEq α] (needle : List α) : List α → Nat → Int
  | [], i => if needle.isEmpty then (i : Int) else -1
  | c :: t, i => if needle.isPrefixOf (c :: t) then (i : Int) else seqFindFrom needle t (i + 1)

/-- `hay.find(needle, start)` for `bytes` / `str`: a negative `start` counts from the end (clipped at 0); `-1` when
    there is no occurrence at or after `start` (in particular when `start > len(hay)`) -/
def seqFind {α : Type} [BEq α] (hay needle : List α) (start : Int) : Int :=
  let st : Nat := if start < 0 then (start + (hay.length : Int)).toNat else start.toNat
  if st > hay.length then -1 else seqFindFrom needle (hay.drop st) st

/-- a slice bound `i` of a sequence of length `n`: negative counts from the end, then clipped to `0 .. n` -/
def sliceIdx (n : Nat) (i : Int) : Nat :=
  if i < 0 then (i + (n : Int)).toNat else min i.toNat n

/-- `xs[lo:hi]` (step 1; a missing bound is `None`) -/
def sliceSeq {α : Type} (xs : List α) (lo hi : Option Int) : List α :=
  let a := match lo with | none => 0 | some i => sliceIdx xs.length i
  let b := match hi with | none => xs.length | some i => sliceIdx xs.length i
  (xs.take b).drop a

/-! ## w5-smallsrc: descriptor objects of template building (`tables.py _descriptors_from_ids_iter`, C14) -/
namespace Small

/-- a BUFR descriptor object as template building sees it, by value.  `ε`: what Table B holds for a defined element
    (an `ElementDescriptor` with its fields; the builder only stores it).  A replication descriptor is created by
    `TableR.lookup` without factor and members, which are assigned afterwards (`descriptor.factor = …`,
    `descriptor.members = …`): `setFactor` / `setMembers`.  **By value**: a `SequenceDescriptor` returned by
    `TableD.lookup` is one shared object in Python; as long as nobody mutates it after the tables are loaded, sharing
    cannot be observed (the assumption under which the tree below stands for the object graph). -/
inductive Descr (ε : Type) where
  | elem (e : ε)                                   -- ElementDescriptor found in Table B
  | undefElem (id : Int)                           -- UndefinedElementDescriptor(id)
  | op (id : Int)                                  -- OperatorDescriptor(id)
  | seq (id : Int) (members : List (Descr ε))      -- SequenceDescriptor found in Table D
  | undefSeq (id : Int)                            -- UndefinedSequenceDescriptor(id)
  | fixedRep (id : Int) (members : List (Descr ε)) -- FixedReplicationDescriptor
  | delayedRep (id : Int) (factor : Option (Descr ε)) (members : List (Descr ε))  -- DelayedReplicationDescriptor

/-- `descriptor.id` of a replication descriptor (0 for the other classes, whose id the builder never reads) -/
def Descr.id {ε : Type} : Descr ε → Int
  | .fixedRep i _ => i
  | .delayedRep i _ _ => i
  | .seq i _ => i
  | .undefElem i => i
  | .undefSeq i => i
  | .op i => i
  | .elem _ => 0

/-- `isinstance(descriptor, DelayedReplicationDescriptor)` -/
def Descr.isDelayed {ε : Type} : Descr ε → Bool
  | .delayedRep _ _ _ => true
  | _ => false

/-- `descriptor.factor = f` (only executed for a delayed replication descriptor) -/
def Descr.setFactor {ε : Type} (d : Descr ε) (f : Descr ε) : Descr ε :=
  match d with
  | .delayedRep i _ ms => .delayedRep i (some f) ms
  | d => d

/-- `descriptor.members = ms` (only executed for a replication descriptor) -/
def Descr.setMembers {ε : Type} (d : Descr ε) (ms : List (Descr ε)) : Descr ε :=
  match d with
  | .fixedRep i _ => .fixedRep i ms
  | .delayedRep i f _ => .delayedRep i f ms
  | d => d

end Small

end Py
