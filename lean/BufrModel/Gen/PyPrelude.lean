/-
  Primitives used by the files that `harness/py2lean.py` generates from the Python source
  (`Gen/Py*.lean`).  This file is STATIC (hand-written, not regenerated); it imports core Lean only.

  It is the *trusted mapping table* of the translator for everything that is not translated
  structurally: each definition below states which Python operation it stands for.  The table in
  `notes/Tie.md` lists them with the assumption each rests on.  Nothing in here is `partial`,
  `unsafe` or `implemented_by`.

  Data representation
    Python `int`                       -> `Int`   (`Nat` where the translator has shown non-negativity)
    Python `str`                       -> `List Char`  (code points; lone surrogates are not representable)
    Python `bytes`                     -> `List UInt8`
    Python `bool`                      -> `Bool`
    Python `list`                      -> `List α`  (by value: the translator rejects aliasing patterns)
    Python `dict` (3.7+)               -> `List (κ × α)` in insertion order, keys pairwise distinct
    Python `tuple`                     -> product
    "a list of such values, or a non-list" -> `Py.Tree α`
    Python exceptions                  -> `Except Py.Exc`
-/
namespace Py

/-- The exceptions a translated function can end with.  `outOfFuel` is not a Python exception: a
    translated `while` loop is a recursion on a fuel argument, and running out of fuel is reported
    by this value (so that a theorem `f x = .ok y` also shows that the fuel was sufficient, i.e. that
    the Python loop terminates). -/
inductive Exc where
  | indexError | keyError | valueError | zeroDivisionError | typeError
  | outOfFuel
  | raised (cls : String)      -- `raise Cls(...)`: the class name; the message is not modelled
  deriving DecidableEq, Repr, Inhabited

abbrev Str := List Char

/-- an object the translated code only stores, counts or passes on -/
structure Obj where
  tag : Nat := 0
  deriving DecidableEq, Repr, Inhabited

/-- a Python value that is either a list (of such values) or something that is not a list: what code that
    tests `isinstance(x, list)` distinguishes -/
inductive Tree (α : Type) where
  | leaf (a : α)
  | list (xs : List (Tree α))

/-- `for x in xs: body` where the body may raise (the list is evaluated once and iterated by value) -/
def forIn {α σ : Type} : List α → σ → (α → σ → Except Exc σ) → Except Exc σ
  | [], v, _ => .ok v
  | x :: xs, v, f =>
    match f x v with
    | .error e => .error e
    | .ok v' => forIn xs v' f

/-- `for x in xs: body` where the body cannot raise -/
def forInPure {α σ : Type} : List α → σ → (α → σ → σ) → σ
  | [], v, _ => v
  | x :: xs, v, f => forInPure xs (f x v) f

/-! ### sequences -/

/-- `xs[i]` for a `Nat` index (`IndexError` when out of range) -/
def getItemNat {α : Type} (xs : List α) (i : Nat) : Except Exc α :=
  match xs[i]? with
  | some x => .ok x
  | none => .error .indexError

/-- `xs[i]` for an `int` index: a negative index counts from the end -/
def getItem {α : Type} (xs : List α) (i : Int) : Except Exc α :=
  if 0 ≤ i then getItemNat xs i.toNat
  else if 0 ≤ i + (xs.length : Int) then getItemNat xs (i + (xs.length : Int)).toNat
  else .error .indexError

/-- `s[i]` on a `str`: a string of length one -/
def strGetItemNat (s : Str) (i : Nat) : Except Exc Str :=
  match s[i]? with
  | some c => .ok [c]
  | none => .error .indexError

def strGetItem (s : Str) (i : Int) : Except Exc Str :=
  if 0 ≤ i then strGetItemNat s i.toNat
  else if 0 ≤ i + (s.length : Int) then strGetItemNat s (i + (s.length : Int)).toNat
  else .error .indexError

/-- `sep.join(xs)` -/
def join (sep : Str) : List Str → Str
  | [] => []
  | [x] => x
  | x :: y :: rest => x ++ sep ++ join sep (y :: rest)

/-- `s * n` / `xs * n` (a non-positive count gives the empty sequence) -/
def repeatSeq {α : Type} (xs : List α) (n : Int) : List α :=
  (List.replicate n.toNat xs).flatten

/-! ### `str.isspace`, `str.strip()` -/

/-- `c.isspace()` for one character: Unicode bidirectional class WS/B/S or category Zs (CPython's
    `_PyUnicode_IsWhitespace` table) -/
def isSpaceChar (c : Char) : Bool :=
  let n := c.toNat
  (9 ≤ n && n ≤ 13) || (28 ≤ n && n ≤ 32) || n == 0x85 || n == 0xa0 || n == 0x1680 ||
  (0x2000 ≤ n && n ≤ 0x200a) || n == 0x2028 || n == 0x2029 || n == 0x202f || n == 0x205f || n == 0x3000

/-- `s.lstrip()` -/
def lstrip (s : Str) : Str := s.dropWhile isSpaceChar
/-- `s.rstrip()` -/
def rstrip (s : Str) : Str := (s.reverse.dropWhile isSpaceChar).reverse
/-- `s.strip()` -/
def strip (s : Str) : Str := rstrip (lstrip s)

/-! ### `str(int)`, `'{}'.format(int)`, `'{:0Nd}'.format(int)` -/

/-- `str(n)` for a non-negative int -/
def strOfNat (n : Nat) : Str := Nat.toDigits 10 n

/-- `str(i)` -/
def strOfInt (i : Int) : Str :=
  if i < 0 then '-' :: Nat.toDigits 10 i.natAbs else Nat.toDigits 10 i.toNat

/-- pad on the left with `fill` up to `width` characters (`'{:>w}'`) -/
def padLeft (fill : Char) (width : Nat) (s : Str) : Str :=
  List.replicate (width - s.length) fill ++ s

/-- `'{:0Wd}'.format(i)`: sign first, then zeros, then digits, total width at least `W` -/
def formatIntZero (width : Nat) (i : Int) : Str :=
  if i < 0 then '-' :: padLeft '0' (width - 1) (Nat.toDigits 10 i.natAbs)
  else padLeft '0' width (Nat.toDigits 10 i.toNat)

/-- `'{:>Wd}'.format(i)` and `'{:Wd}'.format(i)` (numbers are right-aligned by default) -/
def formatIntRight (width : Int) (i : Int) : Str :=
  padLeft ' ' width.toNat (strOfInt i)

/-- `'{:{align}{width}d}'.format(i, align=align, width=width)`: the format specification is the string
    `align + str(width) + 'd'`.  Modelled for `align` in `'>'`, `'<'`; any other alignment string is outside
    the modelled subset and reported as an error value (so no theorem `= .ok _` can be proved about it).
    A negative `width` yields `'>-3d'`, which Python parses as sign option `-` followed by width 3, and
    `width = 0` yields `'>0d'` (zero flag, no width): hence `width.natAbs`. -/
def formatIntAlign (align : Str) (width : Int) (i : Int) : Except Exc Str :=
  let body := strOfInt i
  let w := width.natAbs
  if align = ['>'] then .ok (padLeft ' ' w body)
  else if align = ['<'] then .ok (body ++ List.replicate (w - body.length) ' ')
  else .error (.raised "py2lean: format alignment outside the modelled subset")

/-! ### `dict` (insertion ordered) -/

/-- `k in d` -/
def dictContains {κ α : Type} [BEq κ] (d : List (κ × α)) (k : κ) : Bool :=
  (d.lookup k).isSome

/-- `d[k]` (`KeyError` when absent) -/
def dictGetItem {κ α : Type} [BEq κ] (d : List (κ × α)) (k : κ) : Except Exc α :=
  match d.lookup k with
  | some v => .ok v
  | none => .error .keyError

/-- `d[k] = v`: replaces the value in place when the key exists (the position is kept), appends
    otherwise -/
def dictSetItem {κ α : Type} [BEq κ] : List (κ × α) → κ → α → List (κ × α)
  | [], k, v => [(k, v)]
  | (k', v') :: rest, k, v => if k == k' then (k', v) :: rest else (k', v') :: dictSetItem rest k v

/-! ### arithmetic -/

/-- `a // b` (floor division; `ZeroDivisionError`) -/
def floorDiv (a b : Int) : Except Exc Int :=
  if b = 0 then .error .zeroDivisionError else .ok (Int.fdiv a b)

/-- `a % b` (sign of the divisor; `ZeroDivisionError`) -/
def floorMod (a b : Int) : Except Exc Int :=
  if b = 0 then .error .zeroDivisionError else .ok (Int.fmod a b)

/-! ### objects with mutable attributes (harness/py2lean_state.py, worker w5-codersrc)

  `None`-or-list values are `Option (List α)`.  A value `functools.partial(next, iter(xs))` (a callable that
  returns the next item of `xs` at every call) is represented by the items it has not returned yet, `some rest`;
  the attribute that holds it may also hold `None`.  Assumption: the list `xs` is not mutated while the iterator
  is alive (in `coder.py` the list `bitmapped_descriptors` is only ever re-bound, never mutated in place). -/

/-- truth value of a `None`-or-list: `None` and the empty list are false -/
def truthyOptList {α : Type} : Option (List α) → Bool
  | none => false
  | some l => !l.isEmpty

/-- `functools.partial(next, iter(x))` for a `None`-or-list `x`: `iter(None)` raises `TypeError` -/
def iterOpt {α : Type} : Option (List α) → Except Exc (Option (List α))
  | none => .error .typeError
  | some l => .ok (some l)

/-- `f()` where `f` is `None` (`TypeError`: 'NoneType' object is not callable) or `functools.partial(next, it)`:
    the next item and the callable afterwards, or `StopIteration` -/
def callNext {α : Type} : Option (List α) → Except Exc (α × Option (List α))
  | none => .error .typeError
  | some [] => .error (.raised "StopIteration")
  | some (x :: rest) => .ok (x, some rest)

/-- `xs.pop()` as a statement (the popped item is discarded): the list without its last item; `IndexError` on `[]` -/
def listPop {α : Type} (xs : List α) : Except Exc (List α) :=
  if xs.isEmpty then .error .indexError else .ok xs.dropLast

/-- `a ** b` on ints with an exponent not known to be non-negative: a negative exponent gives a float, which is
    outside the modelled subset and reported as an error value (so no theorem `= .ok _` can be proved about it) -/
def powInt (a b : Int) : Except Exc Int :=
  if b < 0 then .error (.raised "py2lean: ** with a negative exponent (float result) is outside the modelled subset")
  else .ok (a ^ b.toNat)

end Py
